#!/bin/sh
# usage: tools/seedtest.sh <patch.diff> <property-id> [tier]
# applies the patch to /repo, runs the check, reverts. Prints the check's last lines.
P="$(readlink -f "$1")"; ID="$2"; T="${3:-quick}"
cd /repo || exit 2
if ! git apply --check "$P" 2>/dev/null; then echo "patch does not apply: $P"; exit 2; fi
git apply "$P"
cd /verif && ./check "$ID" "$T" > /tmp/seedtest.out 2>&1; rc=$?
git -C /repo checkout -- .
grep -E "^(VIOLATION|KNOWN-FINDING|UNCONFIRMED|INCONCLUSIVE|  what|symgo:)" /tmp/seedtest.out | cut -c1-260 | head -12
echo "exit=$rc"
