#!/bin/sh
# usage: tools/seedall.sh [seed-id ...]
# Runs every seeded change (or the named ones) against the quick check of its property WITHOUT touching
# /repo or /verif/evidence: a scratch worktree of /repo (VERIF_REPO) and a scratch copy of /verif are used
# and removed afterwards. Result lines go to stdout: "<seed> <property> caught|MISSED|noapply  <detail>".
WT=/tmp/wt_seedall${SEEDALL_TAG}
VC=/tmp/verif_seedall${SEEDALL_TAG}
git -C /repo worktree remove --force $WT 2>/dev/null
rm -rf $VC
git -C /repo worktree add -q $WT HEAD || exit 2
mkdir -p $VC && (cd /verif && tar cf - --exclude=./replays --exclude=./.git --exclude=./evidence .) | (cd $VC && tar xf -)
mkdir -p $VC/evidence
ids="$@"
[ -z "$ids" ] && ids=$(ls /verif/seeded)
for id in $ids; do
  [ -d /verif/seeded/$id ] || { echo "$id: no such seed"; continue; }
  d=/verif/seeded/$id
  prop=$(python3 -c "import json;print(json.load(open('$d/meta.json'))['property'])" 2>/dev/null)
  [ -z "$prop" ] && prop=${id%%_*}
  if ! git -C $WT apply --check $d/patch.diff 2>/dev/null; then echo "$id $prop noapply"; continue; fi
  git -C $WT apply $d/patch.diff
  VERIF_REPO=$WT $VC/check $prop quick > /tmp/seedall${SEEDALL_TAG}.out 2>&1; rc=$?
  git -C $WT checkout -q -- .
  if [ $rc -eq 1 ] && grep -q "^VIOLATION property=$prop" /tmp/seedall${SEEDALL_TAG}.out; then
    echo "$id $prop caught  $(grep -m1 '^  what:' /tmp/seedall${SEEDALL_TAG}.out | cut -c1-160)"
  else
    echo "$id $prop MISSED rc=$rc $(grep -E '^(UNCONFIRMED|INCONCLUSIVE)' /tmp/seedall${SEEDALL_TAG}.out | head -2 | cut -c1-200)"
  fi
done
git -C /repo worktree remove --force $WT
rm -rf $VC
