#!/usr/bin/env python3
# Regenerates /verif/MANIFEST.json from the table below (claimed properties) and properties.jsonl.
import json, os
D = os.path.dirname(os.path.dirname(os.path.abspath(__file__)))
props = [json.loads(l) for l in open(os.path.join(D, 'properties.jsonl'))]
T_BV = "symbolic execution of the real go/ssa code + SMT (own engine symgo; z3 5.1.0 primary, bit-vector encoding)"
claimed = {
 "C06": ("other", "LoadSidecar / Flush / LoadOrCreateSidecarWithFallback executed symbolically over a filesystem model: arbitrary bytes, every bit flip and truncation of valid sidecars, identity and chunk count of the returned sidecar; second run with both real endpoints where the highest marked chunk is damaged (re-send on the wire asserted; the final-file assertion is a recorded known finding); the real receiver (symbolic threads) started next to right-identity metadata whose data file is missing, shortened or intact: only chunks whose bytes are on disk are advertised to the sender; solver decides each assertion for all field values within the stated sizes", T_BV, "§5 C06"),
 "C15": ("other", "every control-stream decoder executed symbolically on N arbitrary bytes: no panic, no blocked read, every input-sized make() bounded (allocation oracle); the real receiver (goroutines as symbolic threads) with arbitrary bytes or one arbitrary frame on the data stream and with well-formed control records in arbitrary order: no panic, no all-blocked state, malformed frame rejected, success implies a file of the announced length; counterexamples replayed natively", T_BV, "§5 C15"),
 "C17": ("model_checking", "bounded model checking of sendFileState (real methods from SSA) over all interleavings of worker take/finish steps with resume report and verdict arrival; data symbolic, schedule forked; ghost counters for exactly-once dispatch and single ordered FileEnd; plus the whole sender with two workers on one file (canonical schedule + bounded preemptions): FileEnd is written only after every chunk is on its data stream", "bounded model checking by symbolic execution of go/ssa + SMT (symgo, z3 5.1.0)", "§5 C17"),
 "C18": ("other", "H_C18_* harnesses: every control record's write/read pair and record sequences executed symbolically; equality of value, type byte and bytes consumed decided by SMT for all field values within the stated boundary lengths", T_BV, "§5 C18"),
 "C19": ("other", "chunkTotal, chunkSizeForIndex and CreateSidecar executed symbolically; tiling and count agreement decided for every (size, chunk size, index) of the property's domain in an exact Int-with-wrap encoding; plus an SSA scan of internal/transfer that asks the solver, for every narrow product or shift that is widened to 64 bits, whether it can wrap", "symbolic execution of go/ssa + SMT (symgo; z3 5.1.0, Int-with-wrap encoding of machine arithmetic)", "§5 C19"),
}
claimed.update(json.load(open(os.path.join(D, 'tools', 'claimed_extra.json'))) if os.path.exists(os.path.join(D, 'tools', 'claimed_extra.json')) else {})
na_reasons = json.load(open(os.path.join(D, 'tools', 'not_applicable.json')))
checks = []
for p in props:
    i = p['id']
    if i in claimed:
        lvl, text, tech, ref = claimed[i]
        checks.append({"property_id": i, "quick_cmd": f"./check {i} quick", "thorough_cmd": f"./check {i} thorough",
            "evidence_file": f"/verif/evidence/{i}.json", "replay_cmd_template": "./check replay {path}", "engine": "symgo",
            "level_claimed": {"category": lvl, "text": text, "design_ref": ref},
            "level_note": "bounded symbolic execution of the real SSA; trusted: go/ssa, the symgo interpreter and its stdlib/filesystem models, the SMT solvers, and the per-property idealisations listed in the evidence file's assumptions (DESIGN §8)",
            "technique": tech})
na = [{"property_id": p['id'], "reason": na_reasons.get(p['id'], "check not built yet (solver-based design in DESIGN.md §5)")} for p in props if p['id'] not in claimed]
fixes = "fix: commits in /repo: e31b0cb (C19), aa6707b (C06), b2b155f and bd31b89 (C17), 1b8b29f (C03 late duplicate), 8068c86 and 0110d43 (C12), ad51878 (C07), 0e3ae23, 4f9acd7 and 7f36ac5, 9c0c632 (C02), ea8813a and d996ccc (C03/C04), 1644088, 17bfe02, 04699de, 3c2a7eb, 345e430, c714a31, d43b432, 16c81f4, 84f2801 and 82d9a06 (C15), 0f09042 (C06), 3e6c11a and dae2cd6 (C11), 736ef18 (C13), 01c2a70 (C12), d20e248 (C03 lost wake-up), beb3d22 (C06 kill window). Known findings and fixed entries: /verif/known_findings.json."
m = {"version": 1, "setup_cmd": "./setup.sh",
 "hooks": {"guard": "verif", "enable": "no guarded code in /repo: harnesses and replay drivers enter builds through go/packages overlays and go test -overlay", "baseline_off_cmd": "cd /repo && GOFLAGS=-mod=mod GOPROXY=off go test -vet=off -count=1 -timeout 25m ./...", "source_commits": [], "add_only": True},
 "engines": [{"name": "symgo", "path": "/verif/symgo", "serves_properties": sorted(claimed), "kind_free_text": "own go/ssa symbolic executor (forking by re-execution) emitting SMT-LIB2 to z3 5.1.0 / z3 4.8.12 / cvc5"}],
 "checks": checks, "not_applicable": na, "notes": fixes}
json.dump(m, open(os.path.join(D, 'MANIFEST.json'), 'w'), indent=1)
print("claimed", sorted(claimed), "not_applicable", [x['property_id'] for x in na])
