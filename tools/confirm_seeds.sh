#!/bin/sh
# Confirms every seeded change in a scratch worktree: applies, builds, existing tests pass with it,
# demonstration fails with it and passes without it. Writes seeded/<id>/confirm.txt.
export GOFLAGS=-mod=mod GOPROXY=off
WT=/tmp/wt_confirm
git -C /repo worktree remove --force $WT 2>/dev/null
git -C /repo worktree add -q $WT HEAD || exit 2
for d in /verif/seeded/*/; do
  id=$(basename $d)
  [ -n "$1" ] && [ "$1" != "$id" ] && continue
  out=$d/confirm.txt
  pkgname=$(grep -m1 '^package ' $d/demo_test.go | awk '{print $2}')
  case $pkgname in
    transfer) pd=internal/transfer;; app) pd=internal/app;; session) pd=internal/session;; main) pd=cmd/thruserv;; peers) pd=internal/peers;; manifest) pd=pkg/manifest;; scheduler) pd=internal/scheduler;; *) pd=internal/transfer;;
  esac
  {
    echo "seed $id (demo package $pkgname in $pd) at repo $(git -C /repo rev-parse --short HEAD)"
    cd $WT && git checkout -q -- . && git clean -fdq
    git apply $d/patch.diff && echo "patch applies: yes" || echo "patch applies: NO"
    go build ./... && echo "build with patch: ok" || echo "build with patch: FAIL"
    if go test -vet=off -count=1 ./$pd/ >/tmp/confirm_suite.txt 2>&1; then echo "existing tests of $pd with patch: pass"; else echo "existing tests of $pd with patch: FAIL"; tail -5 /tmp/confirm_suite.txt; fi
    cp $d/demo_test.go $WT/$pd/zz_seed_demo_test.go
    if go test -vet=off -count=1 -timeout 120s -run 'Seed|seed|Demo|demo' ./$pd/ >/tmp/confirm_demo.txt 2>&1; then echo "demo with patch: PASSES (unexpected)"; else echo "demo with patch: fails (expected)"; fi
    git apply -R $d/patch.diff
    if go test -vet=off -count=1 -timeout 120s -run 'Seed|seed|Demo|demo' ./$pd/ >/tmp/confirm_demo2.txt 2>&1; then echo "demo without patch: passes (expected)"; else echo "demo without patch: FAILS (unexpected)"; tail -5 /tmp/confirm_demo2.txt; fi
    rm -f $WT/$pd/zz_seed_demo_test.go
  } > $out 2>&1
  echo "$id: $(grep -c 'expected)' $out) of 2 demo directions as expected; $(grep -c 'FAIL\|NO$\|unexpected' $out) problems"
done
git -C /repo worktree remove --force $WT
