#!/bin/sh
# Builds the symbolic-execution engine offline from vendored sources with the pre-installed go1.26.8.
set -e
cd "$(dirname "$0")/symgo"
export PATH=/opt/veriftools/go1.26.8/bin:$PATH GOTOOLCHAIN=local GOFLAGS=-mod=vendor GOPROXY=off GOSUMDB=off GOWORK=off
mkdir -p ../bin
go build -o ../bin/symgo .
echo "symgo built: $(../bin/symgo list)"
