package peers

// C11: the hub under interleavings. Two operations run as goroutines on a hub with two connected
// peers; the writer goroutines started by Add are threads as well. In the engine every goroutine is a
// symbolic thread and the scheduler may preempt before lock, unlock and channel operations (bounded
// number of preemptions); natively the scenario is repeated with a yield hook widening the windows.

import (
	"time"

	"github.com/sheerbytes/sheerbytes/pkg/protocol"
)

// vHubYield is called by the replay-instrumented copy of hub.go after every h.mu.RUnlock().
var vHubYield = func() {}

func vC11Once(opA, opB int) {
	h := NewHub()
	send := func(env protocol.Envelope) error { return nil }
	rm0 := h.Add("s", Peer{PeerID: "p", Role: "sender", ConnID: "c0"}, send, nil)
	rm1 := h.Add("s", Peer{PeerID: "q", Role: "receiver", ConnID: "c1"}, send, nil)
	_ = rm1
	env := protocol.Envelope{V: 1, Type: "offer", MsgID: "m1", SessionID: "s", From: "q", To: "p"}
	done := make(chan struct{}, 2)
	go func() {
		switch opA {
		case 0:
			h.Broadcast("s", env)
		case 1:
			h.BroadcastExcept("s", "q", env)
		default:
			h.SendTo("s", "p", env)
		}
		done <- struct{}{}
	}()
	go func() {
		switch opB {
		case 0:
			rm0() // p disconnects
		case 1:
			// p reconnects: same peer id, new connection (last write wins closes the old channel)
			h.Add("s", Peer{PeerID: "p", Role: "sender", ConnID: "c2"}, send, nil)
		default:
			h.CloseSession("s")
		}
		done <- struct{}{}
	}()
	<-done
	<-done
	// quiescence: q is still routable unless the session was closed; p is routable unless it left or the session closed
	okQ := h.SendTo("s", "q", env)
	okP := h.SendTo("s", "p", env)
	if opB == 2 {
		vAssert(!okQ && !okP, "nobody is routable after the session was closed")
		vAssert(len(h.List("s")) == 0, "nobody is listed after the session was closed")
	} else {
		vAssert(okQ, "an uninvolved connected peer stays routable")
		vAssert(okP == (opB == 1), "a peer that left is not routable, a reconnected one is")
	}
}

func H_C11_hub() {
	opA, opB := vChoice("opA", 3), vChoice("opB", 3)
	for iter := 0; iter < vRepeat(3000); iter++ {
		vC11Once(opA, opB)
	}
	vCover("C11 hub scenario complete")
}

// H_C11_lastleave: the last peer of a session leaves while another peer joins the same session.
func H_C11_lastleave() {
	for iter := 0; iter < vRepeat(3000); iter++ {
		h := NewHub()
		send := func(env protocol.Envelope) error { return nil }
		rm0 := h.Add("s", Peer{PeerID: "p", Role: "sender", ConnID: "c0"}, send, nil)
		done := make(chan struct{}, 2)
		go func() { rm0(); done <- struct{}{} }()
		go func() {
			h.Add("s", Peer{PeerID: "q", Role: "receiver", ConnID: "c1"}, send, nil)
			done <- struct{}{}
		}()
		<-done
		<-done
		env := protocol.Envelope{V: 1, Type: "offer", MsgID: "m1", SessionID: "s", To: "q"}
		vAssert(h.SendTo("s", "q", env), "a peer that connected while the last other peer left is routable")
		listed := false
		for _, pi := range h.List("s") {
			if pi.PeerID == "q" {
				listed = true
			}
		}
		vAssert(listed, "a peer that connected while the last other peer left is listed")
		vAssert(!h.SendTo("s", "p", env), "the peer that left is not routable")
	}
	vCover("C11 last-leave scenario complete")
}

// H_C11_closejoin: the only peer of a session leaves while the session is closed and a new peer joins
// under the same session id.
func H_C11_closejoin() {
	for iter := 0; iter < vRepeat(3000); iter++ {
		h := NewHub()
		send := func(env protocol.Envelope) error { return nil }
		rm0 := h.Add("s", Peer{PeerID: "p", Role: "sender", ConnID: "c0"}, send, nil)
		done := make(chan struct{}, 2)
		go func() { rm0(); done <- struct{}{} }()
		go func() {
			h.CloseSession("s")
			h.Add("s", Peer{PeerID: "q", Role: "receiver", ConnID: "c1"}, send, nil)
			done <- struct{}{}
		}()
		<-done
		<-done
		env := protocol.Envelope{V: 1, Type: "offer", MsgID: "m1", SessionID: "s", To: "q"}
		vAssert(h.SendTo("s", "q", env), "a peer that connected after the session was closed and re-opened is routable")
		listed := false
		for _, pi := range h.List("s") {
			if pi.PeerID == "q" {
				listed = true
			}
		}
		vAssert(listed, "a peer that connected after the session was closed and re-opened is listed")
	}
	vCover("C11 close-join scenario complete")
}

func init() {
	if !vSymbolic() {
		vHubYield = func() { time.Sleep(200 * time.Microsecond) }
	}
}
