package peers

// C10 (hub part): routing by session and peer id on the hub as a sequential object. Session ids and
// peer ids are symbolic one-byte strings, so "same session", "same peer", "replaced by a reconnect"
// are solver-decided conditions; the writer goroutines stay pending, messages are observed in the
// per-connection channels.

import (
	"github.com/sheerbytes/sheerbytes/pkg/protocol"
)

type vHub struct {
	h    *Hub
	n    int
	sess [3]string
	peer [3]string
	pc   [3]*peerConnection
	gone [3]bool // removed or closed by the harness
}

var vConnIDs = [3]string{"c0", "c1", "c2"}

func vBuildHub(maxConns int) *vHub {
	m := &vHub{h: NewHub()}
	m.n = 1 + vChoice("conns", maxConns)
	for i := 0; i < m.n; i++ {
		m.sess[i] = vString("sess", 1)
		m.peer[i] = vString("peer", 1)
		m.h.Add(m.sess[i], Peer{PeerID: m.peer[i], Role: "receiver", ConnID: vConnIDs[i]}, func(env protocol.Envelope) error { return nil }, nil)
		m.pc[i] = m.h.sessions[m.sess[i]][vConnIDs[i]]
	}
	return m
}

// current(i): connection i is the one registered for its (session, peer id): not replaced by a later
// connection with the same ids (last write wins) and not removed
func (m *vHub) current(i int) bool {
	c := !m.gone[i]
	for j := i + 1; j < m.n; j++ {
		c = vAnd(c, !vAnd(m.sess[j] == m.sess[i], m.peer[j] == m.peer[i]))
	}
	return c
}

func (m *vHub) queued(i int) int {
	return len(m.pc[i].send)
}

func H_C10_sendto() {
	m := vBuildHub(3)
	ts, tp := vString("toSess", 1), vString("toPeer", 1)
	env := protocol.Envelope{V: 1, Type: "offer", MsgID: "m1", SessionID: ts, From: "x", To: tp}
	ok := m.h.SendTo(ts, tp, env)
	any := false
	for i := 0; i < m.n; i++ {
		want := vAnd(m.current(i), vAnd(m.sess[i] == ts, m.peer[i] == tp))
		got := m.queued(i) == 1
		vAssert(got == want, "an addressed message reaches exactly the connection registered for (session, peer)")
		any = vOr(any, want)
	}
	vAssert(ok == any, "SendTo reports whether the addressee is known")
	vCover("C10 SendTo")
}

func H_C10_broadcast() {
	m := vBuildHub(3)
	ts := vString("toSess", 1)
	except := vString("except", 1)
	env := protocol.Envelope{V: 1, Type: "peer_joined", MsgID: "m1", SessionID: ts, From: except}
	useExcept := vBool("useExcept")
	if useExcept {
		m.h.BroadcastExcept(ts, except, env)
	} else {
		m.h.Broadcast(ts, env)
	}
	for i := 0; i < m.n; i++ {
		// a replaced connection is no longer in the session (its channel is closed)
		inSession := vAnd(m.current(i), m.sess[i] == ts)
		want := inSession
		if useExcept {
			want = vAnd(inSession, m.peer[i] != except)
		}
		got := m.queued(i) == 1
		vAssert(got == want, "a broadcast reaches every other peer of the session and nobody else")
	}
	vCover("C10 broadcast")
}

func H_C10_fifo() {
	m := vBuildHub(2)
	ts, tp := vString("toSess", 1), vString("toPeer", 1)
	ids := [3]string{"m1", "m2", "m3"}
	for k := 0; k < 3; k++ {
		env := protocol.Envelope{V: 1, Type: "offer", MsgID: ids[k], SessionID: ts, To: tp}
		switch vChoice("how", 3) {
		case 0:
			m.h.SendTo(ts, tp, env)
		case 1:
			m.h.Broadcast(ts, env)
		default:
			m.h.BroadcastExcept(ts, "zz", env)
		}
	}
	for i := 0; i < m.n; i++ {
		last := -1
		for len(m.pc[i].send) > 0 {
			e := <-m.pc[i].send
			k := int(e.MsgID[1] - '1')
			vAssert(k > last, "messages to one connection are neither reordered nor duplicated")
			last = k
		}
	}
	vCover("C10 fifo")
}

func H_C10_lifecycle() {
	m := &vHub{h: NewHub()}
	m.n = 2
	var removes [2]func()
	for i := 0; i < 2; i++ {
		m.sess[i] = vString("sess", 1)
		m.peer[i] = vString("peer", 1)
		removes[i] = m.h.Add(m.sess[i], Peer{PeerID: m.peer[i], Role: "receiver", ConnID: vConnIDs[i]}, func(env protocol.Envelope) error { return nil }, nil)
		m.pc[i] = m.h.sessions[m.sess[i]][vConnIDs[i]]
	}
	k := vChoice("leaves", 2)
	if vBool("closeSession") {
		m.h.CloseSession(m.sess[k])
		for i := 0; i < 2; i++ {
			if m.sess[i] == m.sess[k] {
				m.gone[i] = true
			}
		}
	} else {
		removes[k]()
		m.gone[k] = true
	}
	for i := 0; i < 2; i++ {
		cur := m.current(i)
		env := protocol.Envelope{V: 1, Type: "offer", MsgID: "m1", SessionID: m.sess[i], To: m.peer[i]}
		// the other connection may carry the same ids
		other := 1 - i
		otherSame := vAnd(m.current(other), vAnd(m.sess[other] == m.sess[i], m.peer[other] == m.peer[i]))
		ok := m.h.SendTo(m.sess[i], m.peer[i], env)
		vAssert(ok == vOr(cur, otherSame), "a connected peer is routable, a peer that left is not")
		listed := false
		for _, pi := range m.h.List(m.sess[i]) {
			if pi.PeerID == m.peer[i] {
				listed = true
			}
		}
		vAssert(listed == vOr(cur, otherSame), "a peer is listed exactly while it is connected")
	}
	if m.gone[0] && m.gone[1] {
		vAssert(len(m.h.sessions) == 0, "no session entry leaks once every peer is gone")
		vAssert(len(m.h.byPeerID) == 0, "no routing entry leaks once every peer is gone")
	}
	vCover("C10 lifecycle")
}
