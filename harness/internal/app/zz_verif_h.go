package app

// C12: admission state machine of the snapshot sender, bounded model checking over event histories.
//
// The step functions are the repository's own methods; the glue mirrors handleEnvelope:
//   join(p)   = handlePeerJoined(p)                       (+ sendManifestOffer: no-op, conn == nil)
//   accept(p) = handleManifestAccept(p, accept); maybeStartTransfers(ctx)
//   leave(p)  = handlePeerLeft(p)
//   end(k)    = the k-th `go s.runTransfer(...)` task returns (transferFn result symbolic)
//   tick      = clock advances past receiverTTL; cleanup()
// `go s.runTransfer` is a pending task in the engine (run at its end event); natively the transferFn
// stub blocks until the end event releases it.

import (
	"context"
	"errors"
	"io"
	"log/slog"
	"time"

	"github.com/sheerbytes/sheerbytes/pkg/protocol"
)

type vC12 struct {
	s         *SnapshotSender
	maxRecv   int
	clock     int64
	peers     []string
	started   int      // tasks started (transferFn invoked / pending created)
	taskPeer  []string // ghost: peer of task k
	ended     []bool
	cancelled []bool // ghost: task k was cancelled by a leave
	release   []chan struct{}
	fail      []bool
	curTask   int
	arrival   []string // ghost FIFO of enqueued peers
	left      map[string]bool
	intro     int // receivers that have appeared so far
	lastTick  bool
}

func vNewC12(maxRecv int, peers []string) *vC12 {
	m := &vC12{maxRecv: maxRecv, peers: peers, clock: 1_000_000_000, left: map[string]bool{}}
	s := &SnapshotSender{
		maxRecv:     maxRecv,
		receiverTTL: 10 * time.Minute,
		receivers:   make(map[string]*ReceiverState),
		active:      make(map[string]*transferSlot),
		signalCh:    make(map[string]chan protocol.Envelope),
		exitFn:      func(int) {},
		closeConn:   func() {},
		logger:      slog.New(slog.NewTextHandler(io.Discard, nil)),
	}
	var base time.Time
	s.now = func() time.Time { return base.Add(time.Duration(m.clock)) }
	for i := 0; i < 16; i++ {
		m.release = append(m.release, make(chan struct{}))
		m.fail = append(m.fail, false)
		m.ended = append(m.ended, false)
		m.cancelled = append(m.cancelled, false)
	}
	s.transferFn = func(ctx context.Context, peerID string) error {
		k := m.curTask
		if !vSymbolic() {
			// native: tasks start in creation order; block until the end event
			k = vNativeTaskIndex(m, peerID)
			<-m.release[k]
		}
		if m.fail[k] {
			return errors.New("transfer failed")
		}
		return nil
	}
	m.s = s
	return m
}

var vNativeStarted = 0

func vNativeTaskIndex(m *vC12, peerID string) int {
	m.s.mu.Lock()
	k := vNativeStarted
	vNativeStarted++
	m.s.mu.Unlock()
	return k
}

// tasksCreated: number of runTransfer goroutines created so far (ghost, from the slots ever made)
func (m *vC12) noteStarts(before map[string]*transferSlot) {
	// a new slot pointer in s.active means maybeStartTransfers started a transfer for that peer
	for _, p := range m.peers {
		if slot := m.s.active[p]; slot != nil && before[p] != slot {
			m.taskPeer = append(m.taskPeer, p)
			m.started++
		}
	}
}

func (m *vC12) snapshotActive() map[string]*transferSlot {
	c := map[string]*transferSlot{}
	for _, p := range m.peers {
		if slot := m.s.active[p]; slot != nil {
			c[p] = slot
		}
	}
	return c
}

func (m *vC12) settle() {
	if !vSymbolic() {
		time.Sleep(30 * time.Millisecond)
	}
}

func (m *vC12) running() int {
	n := 0
	for k := 0; k < m.started; k++ {
		if !m.ended[k] && !m.cancelled[k] {
			n++
		}
	}
	return n
}

func (m *vC12) inQueue(p string) int {
	n := 0
	for _, q := range m.s.queue {
		if q == p {
			n++
		}
	}
	return n
}

func (m *vC12) check(ev string) {
	s := m.s
	s.mu.Lock()
	defer s.mu.Unlock()
	vAssert(len(s.active) <= m.maxRecv, "active slots never exceed max-receivers")
	vAssert(m.running() <= m.maxRecv, "running transfers never exceed max-receivers")
	for _, p := range m.peers {
		st := s.receivers[p]
		q := m.inQueue(p)
		vAssert(q <= 1, "a receiver is queued at most once")
		if q == 1 {
			vAssert(st != nil && st.Status == ReceiverStatusQueued, "a queued receiver has status QUEUED")
			vAssert(s.active[p] == nil, "a receiver is not queued and transferring at once")
		}
		if st != nil && st.Status == ReceiverStatusQueued {
			vAssert(q == 1, "status QUEUED implies queued")
		}
		if s.active[p] != nil {
			vAssert(st != nil && st.Status == ReceiverStatusTransferring, "an active slot implies status TRANSFERRING")
		}
		if st != nil && st.Status == ReceiverStatusTransferring {
			vAssert(s.active[p] != nil, "status TRANSFERRING implies an active slot")
		}
		if m.left[p] {
			vAssert(q == 0, "a receiver that left is not queued")
			vAssert(s.active[p] == nil, "a receiver that left holds no slot")
		}
	}
	vAssert(!(len(s.active) < m.maxRecv && len(s.queue) > 0), "a free slot with a waiting receiver does not persist")
	// FIFO: queue is the ghost arrival order restricted to queued peers
	qi := 0
	for _, p := range m.arrival {
		if qi < len(s.queue) && s.queue[qi] == p {
			qi++
		}
	}
	vAssert(qi == len(s.queue), "waiting receivers keep their arrival order")
	// per-peer: at most one uncancelled running task
	for _, p := range m.peers {
		n := 0
		for k := 0; k < m.started; k++ {
			if m.taskPeer[k] == p && !m.ended[k] && !m.cancelled[k] {
				n++
			}
		}
		vAssert(n <= 1, "at most one running transfer per receiver")
		if n == 1 {
			vAssert(s.active[p] != nil, "a running transfer owns a slot")
		}
	}
	_ = ev
}

// step: one event from the menu of enabled events. Receivers are symmetric, so an event may name only
// a receiver that has already appeared or the first one that has not; transfer ends are listed per
// running task; an idle tick directly after a tick adds nothing.
func (m *vC12) step() {
	s := m.s
	np := m.intro + 1
	if np > len(m.peers) {
		np = len(m.peers)
	}
	type evt struct{ kind, arg int }
	var menu []evt
	for p := 0; p < np; p++ {
		menu = append(menu, evt{0, p}, evt{1, p})
		if s.receivers[m.peers[p]] != nil {
			menu = append(menu, evt{2, p})
		}
	}
	for k := 0; k < m.started; k++ {
		if !m.ended[k] {
			menu = append(menu, evt{3, k})
		}
	}
	if !m.lastTick {
		menu = append(menu, evt{4, 0})
	}
	e := menu[vChoice("ev", len(menu))]
	m.lastTick = e.kind == 4
	if e.kind <= 2 && e.arg == m.intro && m.intro < len(m.peers) {
		m.intro++
	}
	switch e.kind {
	case 0:
		p := m.peers[e.arg]
		s.handlePeerJoined(p)
		m.left[p] = false
		m.settle()
		m.check("join")
	case 1:
		p := m.peers[e.arg]
		before := m.snapshotActive()
		wasQueued := m.inQueue(p) > 0
		wasActive := s.active[p] != nil
		s.handleManifestAccept(p, protocol.ManifestAccept{})
		if !wasQueued && !wasActive {
			m.arrival = append(m.arrival, p)
		}
		m.left[p] = false
		s.maybeStartTransfers(context.Background())
		m.noteStarts(before)
		m.settle()
		m.check("accept")
	case 2:
		p := m.peers[e.arg]
		before := m.snapshotActive()
		// ghost: the task that currently owns p's slot is cancelled by the leave
		if s.active[p] != nil {
			for k := m.started - 1; k >= 0; k-- {
				if m.taskPeer[k] == p && !m.ended[k] && !m.cancelled[k] {
					m.cancelled[k] = true
					break
				}
			}
		}
		s.handlePeerLeft(p)
		m.left[p] = true
		m.noteStarts(before)
		m.settle()
		m.check("leave")
	case 3:
		// a running (or cancelled, still draining) task returns
		k := e.arg
		m.fail[k] = vBool("fail")
		if m.cancelled[k] {
			m.fail[k] = true // a cancelled transfer returns an error
		}
		before := m.snapshotActive()
		m.curTask = k
		if vSymbolic() {
			vRunPendingAt("runTransfer", k)
		} else {
			close(m.release[k])
		}
		m.ended[k] = true
		m.settle()
		m.noteStarts(before)
		m.check("end")
	default:
		waiting := append([]string{}, s.queue...)
		m.clock += int64(11 * time.Minute)
		s.cleanup()
		m.settle()
		// a receiver that waits for a slot is alive (its departure is announced by peer_left): the idle
		// cleanup is for receivers that are neither waiting nor being served
		same := len(s.queue) == len(waiting)
		for i := 0; same && i < len(waiting); i++ {
			same = s.queue[i] == waiting[i]
		}
		vAssert(same, "the idle cleanup does not drop a waiting receiver")
		m.check("tick")
	}
}

func vC12Run(peers []string, steps int) {
	vNativeStarted = 0
	m := vNewC12(1+vChoice("maxRecvMinus1", 2), peers)
	for i := 0; i < steps; i++ {
		m.step()
	}
	vCover("C12 run complete")
}

func H_C12_two()    { vC12Run([]string{"a", "b"}, 5) }
func H_C12_three5() { vC12Run([]string{"a", "b", "c"}, 5) }
func H_C12_three()  { vC12Run([]string{"a", "b", "c"}, 6) }
func H_C12_deep()   { vC12Run([]string{"a", "b", "c"}, 8) }
