package app

// C13 (path-list kernel): ScanPaths and buildPathResolver on a list of three plain files whose base
// names are symbolic strings: rel paths pairwise distinct and sorted, totals add up, every item
// resolves back to the file it came from.

import (
	"os"

	"github.com/sheerbytes/sheerbytes/pkg/manifest"
)

func vPlainName(tag string) string {
	n := vString(tag, 1+vChoice(tag+"Len", 3))
	for i := 0; i < len(n); i++ {
		vAssume(n[i] != '/' && n[i] != 0)
	}
	vAssume(n != "." && n != "..")
	return n
}

func vPlainNameLen(tag string, lens []int) string {
	n := vString(tag, lens[vChoice(tag+"Len", len(lens))])
	for i := 0; i < len(n); i++ {
		vAssume(n[i] != '/' && n[i] != 0)
	}
	vAssume(n != "." && n != "..")
	return n
}

func H_C13_paths()      { vC13Paths([][]int{{1}, {1}, {1, 3}}) }
func H_C13_paths_deep() { vC13Paths([][]int{{1, 2}, {1, 2, 3}, {1, 2, 3}}) }

func vC13Paths(lens [][]int) {
	dirs := []string{"a", "b", "c"}
	k := 3
	var paths []string
	var names []string
	sizes := []int{1, 2, 0}
	for i := 0; i < k; i++ {
		name := vPlainNameLen([]string{"n1", "n2", "n3"}[i], lens[i])
		names = append(names, name)
		paths = append(paths, vTempFile(dirs[i]+"/"+name, make([]byte, sizes[i])))
	}
	// a name that looks like the tool's own disambiguation prefix applied to another given name
	for i := 0; i < k; i++ {
		for j := 0; j < k; j++ {
			ni, nj := names[i], names[j]
			if i != j && len(ni) == len(nj)+2 && ni[1] == '_' && ni[0] >= '1' && ni[0] <= '9' && ni[2:] == nj {
				vTag("prefix-like-name")
			}
		}
	}
	m, err := manifest.ScanPaths(paths)
	vAssert(err == nil, "scanning existing plain files succeeds")
	vAssert(len(m.Items) == k, "every given file is listed exactly once")
	total := int64(0)
	for i := range m.Items {
		total += m.Items[i].Size
		vAssert(!m.Items[i].IsDir, "plain files are listed as files")
		for j := i + 1; j < len(m.Items); j++ {
			vAssert(m.Items[i].RelPath != m.Items[j].RelPath, "relative paths in the manifest are pairwise distinct")
			vAssert(m.Items[i].RelPath < m.Items[j].RelPath, "the manifest is sorted by relative path")
		}
	}
	vAssert(m.FileCount == k && m.FolderCount == 0, "counts add up")
	vAssert(m.TotalBytes == total, "total bytes add up")
	want := int64(0)
	for _, s := range sizes {
		want += int64(s)
	}
	vAssert(total == want, "sizes are the files' sizes")
	resolve, rerr := buildPathResolver(paths)
	vAssert(rerr == nil, "the resolver can be built for the same paths")
	// each given path is the resolution of exactly one item, and that item has the file's size
	for i := 0; i < k; i++ {
		hits := 0
		for _, it := range m.Items {
			if resolve(it.RelPath) == paths[i] {
				hits++
				st, serr := os.Stat(paths[i])
				vAssert(serr == nil && st.Size() == it.Size, "an item's size is the size of the file it resolves to")
			}
		}
		vAssert(hits == 1, "every source file is the resolution of exactly one manifest item")
	}
	// determinism
	m2, err2 := manifest.ScanPaths(paths)
	vAssert(err2 == nil && len(m2.Items) == len(m.Items), "a second scan lists the same number of items")
	for i := range m.Items {
		if i < len(m2.Items) {
			vAssert(m2.Items[i].RelPath == m.Items[i].RelPath && m2.Items[i].Size == m.Items[i].Size, "a second scan of unchanged paths yields the same manifest")
		}
	}
	vCover("C13 paths scanned")
}

// H_C13_dir: one shared directory containing a sub-directory with a file and a sibling file whose
// name starts with the sub-directory's name; alone or together with a second shared file.
func H_C13_dir() {
	sib := []string{"a.b", "a-b", "ab", "b", "a b"}[vChoice("sibling", 5)]
	vTempFile("s/a/c", make([]byte, 3))
	vTempFile("s/"+sib, make([]byte, 2))
	dir := vTempDir() + "/s"
	paths := []string{dir}
	if vBool("secondPath") {
		paths = append(paths, vTempFile("t/z", make([]byte, 1)))
	}
	m, err := manifest.ScanPaths(paths)
	vAssert(err == nil, "scanning an existing directory succeeds")
	files, folders := 0, 0
	total := int64(0)
	for i := range m.Items {
		if m.Items[i].IsDir {
			folders++
		} else {
			files++
			total += m.Items[i].Size
		}
		for j := i + 1; j < len(m.Items); j++ {
			vAssert(m.Items[i].RelPath != m.Items[j].RelPath, "relative paths in the manifest are pairwise distinct")
			vAssert(m.Items[i].RelPath < m.Items[j].RelPath, "the manifest is sorted by relative path")
		}
	}
	vAssert(files == len(paths)+1 && folders == 2, "every file and directory beneath the shared paths is listed once")
	vAssert(m.FileCount == files && m.FolderCount == folders && m.TotalBytes == total, "counts and totals add up")
	resolve, rerr := buildPathResolver(paths)
	vAssert(rerr == nil, "the resolver can be built for the same paths")
	for _, it := range m.Items {
		if !it.IsDir {
			p := resolve(it.RelPath)
			st, serr := os.Stat(p)
			vAssert(serr == nil && !st.IsDir() && st.Size() == it.Size, "every listed file resolves to a source file of the listed size")
		}
	}
	vCover("C13 directory scanned")
}

// H_C13_links: a shared directory that contains, next to a plain file, a symbolic link to a file whose
// content length differs from the length of the link's target text (and optionally a dangling link).
// Whatever the scanner decides to do with links, a listed non-directory entry must have the size of what
// the sender will read when it opens the resolved path; counts and totals add up; the scan is repeatable.
func H_C13_links() {
	base := vTempDir()
	vTempFile("s/plain", make([]byte, 2))
	target := vTempFile("elsewhere/target-file-with-a-long-name", make([]byte, 3))
	vTempSymlink("s/link", target)
	if vBool("danglingLink") {
		vTempSymlink("s/zdangling", base+"/elsewhere/nothing-here")
	}
	paths := []string{base + "/s"}
	m, err := manifest.ScanPaths(paths)
	if err != nil {
		vCover("C13 links: scan refuses")
		return
	}
	resolve, rerr := buildPathResolver(paths)
	vAssert(rerr == nil, "the resolver can be built for the same paths")
	files, folders := 0, 0
	total := int64(0)
	for i := range m.Items {
		it := m.Items[i]
		if it.IsDir {
			folders++
			continue
		}
		files++
		total += it.Size
		st, serr := os.Stat(resolve(it.RelPath))
		vAssert(serr == nil && !st.IsDir(), "every listed file can be opened by the sender")
		vAssert(serr == nil && st.Size() == it.Size, "a listed entry has the size of the content the sender will read")
	}
	vAssert(m.FileCount == files && m.FolderCount == folders && m.TotalBytes == total, "counts and totals add up")
	m2, err2 := manifest.ScanPaths(paths)
	vAssert(err2 == nil && len(m2.Items) == len(m.Items), "scanning again lists the same entries")
	vCover("C13 links scanned")
}
