package app

// C08: transport authentication. HMAC-SHA256 is an uninterpreted injective function in the engine
// (real function natively); the TLS exporter output is an arbitrary 32-byte value per session; the
// peer's 50-byte message is arbitrary (attacker-controlled).

import (
	"bytes"
	"context"
	"io"
	"net"

	"github.com/sheerbytes/sheerbytes/internal/transfer"
)

type vAuthStream struct {
	in   []byte
	rpos int
	out  []byte
}

func (s *vAuthStream) Read(p []byte) (int, error) {
	if s.rpos >= len(s.in) {
		return 0, io.EOF
	}
	n := copy(p, s.in[s.rpos:])
	s.rpos += n
	return n, nil
}
func (s *vAuthStream) Write(p []byte) (int, error) { s.out = append(s.out, p...); return len(p), nil }
func (s *vAuthStream) Close() error                { return nil }

type vAuthConn struct {
	ekm    []byte
	stream *vAuthStream
}

func (c *vAuthConn) OpenStream(ctx context.Context) (transfer.Stream, error)   { return c.stream, nil }
func (c *vAuthConn) AcceptStream(ctx context.Context) (transfer.Stream, error) { return c.stream, nil }
func (c *vAuthConn) RemoteAddr() net.Addr                                      { return nil }
func (c *vAuthConn) Close() error                                              { return nil }
func (c *vAuthConn) ExportKeyingMaterial(label string, context []byte, length int) ([]byte, error) {
	return c.ekm, nil
}

// vPeerMessage builds the attacker's message: arbitrary version, role and nonce; the MAC is either the
// real MAC for exactly these header bytes (constructed with the real function, so that a model replays
// natively) or arbitrary bytes different from it; the message may be cut short.
func vPeerMessage(key []byte) []byte {
	hdr := vBytes("hdr", 2)
	nonce := vBytes("nonce", authNonceSize)
	real := computeAuthMac(key, hdr[1], nonce)
	mac := real
	if !vBool("validMac") {
		mac = vBytes("mac", authMacSize)
		vAssume(!bytes.Equal(mac, real))
	}
	msg := append(append(append([]byte{}, hdr...), nonce...), mac...)
	return msg[:authMsgSize-vChoice("short", 3)]
}

func vExactProof(key []byte, role byte, msg []byte) bool {
	if len(msg) != authMsgSize {
		return false
	}
	want := computeAuthMac(key, role, msg[2:2+authNonceSize])
	return vAnd(vAnd(msg[0] == authVersion, msg[1] == role), bytes.Equal(msg[2+authNonceSize:], want))
}

// H_C08_receiver: the honest receiver accepts iff the peer's message is exactly
// (version, sender role, n, H(key, version|role|n)) for its own key; it writes nothing before that.
func H_C08_receiver() {
	code := vString("joinCode", 8)
	ekm := vBytes("ekm", 32)
	st := &vAuthStream{}
	conn := &vAuthConn{ekm: ekm, stream: st}
	key, err := deriveAuthKey(conn, code)
	vAssume(err == nil)
	msg := vPeerMessage(key)
	st.in = msg
	res := authAsReceiver(vContext("ctx", false), conn, key)
	exact := vExactProof(key, authRoleSender, msg)
	if res == nil {
		vCover("C08 receiver accepts")
		vAssert(exact, "the receiver accepts only the exact sender proof for its key")
		vAssert(len(st.out) == authMsgSize, "the receiver answers with one message")
		vAssert(vExactProof(key, authRoleReceive, st.out), "the receiver's answer is its own proof")
	} else {
		vCover("C08 receiver rejects")
		vAssert(!exact, "the receiver rejects only messages that are not the exact proof")
		vAssert(len(st.out) == 0, "the receiver writes nothing before it has verified the peer")
	}
}

// H_C08_sender: the honest sender accepts iff the answer is the exact receiver proof for its key.
func H_C08_sender() {
	code := vString("joinCode", 8)
	ekm := vBytes("ekm", 32)
	st := &vAuthStream{}
	conn := &vAuthConn{ekm: ekm, stream: st}
	key, err := deriveAuthKey(conn, code)
	vAssume(err == nil)
	msg := vPeerMessage(key)
	st.in = msg
	res := authAsSender(vContext("ctx", false), conn, key)
	vAssert(len(st.out) == authMsgSize, "the sender sends one message")
	vAssert(vExactProof(key, authRoleSender, st.out), "the sender's message is its own proof")
	exact := vExactProof(key, authRoleReceive, msg)
	if res == nil {
		vCover("C08 sender accepts")
		vAssert(exact, "the sender accepts only the exact receiver proof for its key")
	} else {
		vCover("C08 sender rejects")
		vAssert(!exact, "the sender rejects only messages that are not the exact proof")
	}
}

// H_C08_reflection: the sender's own proof reflected back to it is rejected.
func H_C08_reflection() {
	code := vString("joinCode", 8)
	ekm := vBytes("ekm", 32)
	nonce := vBytes("nonce", authNonceSize)
	st := &vAuthStream{}
	conn := &vAuthConn{ekm: ekm, stream: st}
	key, err := deriveAuthKey(conn, code)
	vAssume(err == nil)
	// whatever nonce the sender will pick, the attacker echoes a sender-role proof (it has seen one)
	mac := computeAuthMac(key, authRoleSender, nonce)
	st.in = append(append([]byte{authVersion, authRoleSender}, nonce...), mac...)
	res := authAsSender(vContext("ctx", false), conn, key)
	vAssert(res != nil, "a reflected sender proof is rejected by the sender")
	vCover("C08 reflection rejected")
}

// H_C08_foreign: a proof made with another join code or on another TLS session (relay / wrong code)
// is rejected by both roles.
func H_C08_foreign() {
	code, code2 := vString("joinCode", 8), vString("joinCode2", 8)
	ekm, ekm2 := vBytes("ekm", 32), vBytes("ekm2", 32)
	vAssume(!vAnd(code == code2, bytes.Equal(ekm, ekm2))) // different code or different session
	nonce := vBytes("nonce", authNonceSize)
	role := authRoleSender
	asReceiver := vBool("victimIsReceiver")
	if !asReceiver {
		role = authRoleReceive
	}
	other := &vAuthConn{ekm: ekm2}
	key2, err := deriveAuthKey(other, code2)
	vAssume(err == nil)
	mac := computeAuthMac(key2, role, nonce)
	st := &vAuthStream{in: append(append([]byte{authVersion, role}, nonce...), mac...)}
	conn := &vAuthConn{ekm: ekm, stream: st}
	key, err := deriveAuthKey(conn, code)
	vAssume(err == nil)
	var res error
	if asReceiver {
		res = authAsReceiver(vContext("ctx", false), conn, key)
	} else {
		res = authAsSender(vContext("ctx", false), conn, key)
	}
	vAssert(res != nil, "a proof for another join code or TLS session is rejected")
	vCover("C08 foreign proof rejected")
}

// H_C08_agree: two honest ends of one session with the same code accept each other.
func H_C08_agree() {
	code := vString("joinCode", 8)
	ekm := vBytes("ekm", 32)
	a2b := &vAuthStream{}
	sconn := &vAuthConn{ekm: ekm, stream: a2b}
	skey, err := deriveAuthKey(sconn, code)
	vAssume(err == nil)
	// run the receiver on the sender's first message, then the sender on the receiver's answer
	sfirst := &vAuthStream{in: nil}
	sc := &vAuthConn{ekm: ekm, stream: sfirst}
	_ = authAsSender(vContext("ctx", false), sc, skey) // fails on EOF after writing its proof
	vAssume(len(sfirst.out) == authMsgSize)
	rst := &vAuthStream{in: sfirst.out}
	rc := &vAuthConn{ekm: ekm, stream: rst}
	rkey, err := deriveAuthKey(rc, code)
	vAssume(err == nil)
	vAssert(authAsReceiver(vContext("ctx", false), rc, rkey) == nil, "the receiver accepts the honest sender")
	vCover("C08 honest pair agrees")
}
