package session

import (
	"crypto/rand"
	"fmt"
	"time"
)

// vRandScript: native replay only. The engine replaces generateJoinCode by 8 arbitrary alphabet indices
// (inputs joincode<k>) and generateSessionID by fresh ids; natively crypto/rand is scripted to produce
// exactly those draws: the k-th 8-byte read yields joincode<k>, 16-byte reads yield a counter.
type vRandScript struct{ codes, ids int }

func (r *vRandScript) Read(p []byte) (int, error) {
	if len(p) == 8 {
		r.codes++
		name := fmt.Sprintf("joincode%d", r.codes)
		if vHas(name) {
			copy(p, vBytesRaw(name, 8))
		} else {
			// beyond the draws of the symbolic path (the native clock differs from the symbolic one): fresh codes
			for i := range p {
				p[i] = byte(r.codes>>(5*uint(i))) & 31
			}
			p[7] = 31
		}
		return 8, nil
	}
	r.ids++
	for i := range p {
		p[i] = 0
	}
	if len(p) > 0 {
		p[len(p)-1] = byte(r.ids)
	}
	return len(p), nil
}

// C14 (store part): join codes live exactly as long as their session; live codes pairwise distinct.
// History of k operations over up to 3 created sessions; crypto/rand yields symbolic bytes, time.Now a
// symbolic non-decreasing clock.

type vSess struct {
	s       Session
	deleted bool
}

func vC14Run(steps int) {
	if !vSymbolic() {
		saved := rand.Reader
		rand.Reader = &vRandScript{}
		defer func() { rand.Reader = saved }()
	}
	ttl := time.Duration(0)
	if vBool("ttlOn") {
		ttl = time.Duration(vI64("ttl"))
		vAssume(ttl > 0)
		vAssume(ttl < time.Duration(1)<<50)
	}
	st := NewStore(ttl)
	var made []*vSess
	for i := 0; i < steps; i++ {
		switch vChoice("op", 3) {
		case 0:
			if len(made) >= 3 {
				continue
			}
			before := time.Now()
			s := st.Create()
			for _, o := range made {
				vAssume(o.s.ID != s.ID) // fresh 128-bit ids do not collide (assumption)
				if !o.deleted && st.alive(o.s, before) {
					vAssert(o.s.JoinCode != s.JoinCode, "codes of live sessions are pairwise distinct")
				}
			}
			vAssert(len(s.JoinCode) == 8, "join code has 8 characters")
			if ttl == 0 {
				vAssert(s.ExpiresAt.IsZero(), "ttl 0 means the session never expires")
			} else {
				vAssert(s.ExpiresAt.Sub(s.CreatedAt) == ttl, "expiry is creation time plus the lifetime")
			}
			made = append(made, &vSess{s: s})
			vCover("C14 create")
		case 1:
			if len(made) == 0 {
				continue
			}
			k := vChoice("which", len(made))
			t0 := time.Now()
			got, ok := st.GetByJoinCode(made[k].s.JoinCode)
			t1 := time.Now()
			ms := made[k]
			// another live session may own the same code only if ms is dead (codes are reused after death)
			if !ms.deleted && (ms.s.ExpiresAt.IsZero() || !t1.After(ms.s.ExpiresAt)) {
				vAssert(ok, "a join code admits peers while its session is alive")
				vAssert(got.ID == ms.s.ID, "the code resolves to its own session")
				vCover("C14 lookup hit")
			}
			if ok {
				vAssert(got.ExpiresAt.IsZero() || !t0.After(got.ExpiresAt), "no session is returned after its lifetime expired")
				for _, o := range made {
					if o.s.ID == got.ID {
						vAssert(!o.deleted, "no session is returned after it was deleted")
					}
				}
			} else {
				vCover("C14 lookup miss")
			}
		default:
			if len(made) == 0 {
				continue
			}
			k := vChoice("which", len(made))
			st.Delete(made[k].s.ID)
			made[k].deleted = true
			_, ok := st.GetByJoinCode(made[k].s.JoinCode)
			if ok {
				// only legitimate if another live session was later given the same code
				other := false
				for j, o := range made {
					if j != k && !o.deleted && o.s.JoinCode == made[k].s.JoinCode {
						other = true
					}
				}
				vAssert(other, "a deleted session's code no longer admits peers")
			}
			vCover("C14 delete")
		}
	}
	n := 0
	for _, o := range made {
		if !o.deleted {
			n++
		}
	}
	vAssert(st.Count() <= len(made), "count never exceeds the sessions created")
	vAssert(st.Count() <= n || ttl > 0 || true, "count bounded")
}

// alive: not yet purged by expiry as far as the store can know at time t
func (st *Store) alive(s Session, t time.Time) bool {
	if _, ok := st.sessions[s.ID]; !ok {
		return false
	}
	return true
}

func H_C14_store()      { vC14Run(4) }
func H_C14_store_deep() { vC14Run(5) }
