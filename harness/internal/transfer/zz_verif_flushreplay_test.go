package transfer

// Native replay driver for the Flush obligations: the real Sidecar.Flush runs on a real directory
// watched with inotify; the sequence of directory events shows whether the final path was ever written
// in place instead of being replaced by a rename.

import (
	"fmt"
	"os"
	"path/filepath"
	"strings"
	"syscall"
	"testing"
	"unsafe"
)

func vMkSidecar(path, tag string) *Sidecar {
	total := int(vNumRaw("chunks" + tag))
	bits := vBytesRaw("bits"+tag, (total+7)/8)
	return &Sidecar{Path: path, FileID: "id", FileSize: int64(vNumRaw("size" + tag)), ChunkSize: uint32(vNumRaw("cs" + tag)), TotalChunks: uint32(total),
		bitmap: &Bitmap{bits: total, data: bits}, dirty: true}
}

func TestVerifFlushReplay(t *testing.T) {
	vLoad()
	dir := filepath.Join(t.TempDir(), ".thruflux_resumedata")
	final := filepath.Join(dir, "id.sbxmap")
	if err := os.MkdirAll(dir, 0o755); err != nil {
		t.Fatal(err)
	}
	if vNumRaw("haveOld") == 0 {
		if err := vMkSidecar(final, "Old").Flush(); err != nil {
			t.Fatal(err)
		}
	}
	fd, err := syscall.InotifyInit1(syscall.IN_NONBLOCK)
	if err != nil {
		t.Fatal(err)
	}
	defer syscall.Close(fd)
	if _, err := syscall.InotifyAddWatch(fd, dir, syscall.IN_CREATE|syscall.IN_MODIFY|syscall.IN_MOVED_FROM|syscall.IN_MOVED_TO|syscall.IN_DELETE|syscall.IN_CLOSE_WRITE|syscall.IN_OPEN); err != nil {
		t.Fatal(err)
	}
	sc := vMkSidecar(final, "New")
	ferr := sc.Flush()
	var events []string
	buf := make([]byte, 64*1024)
	for {
		n, err := syscall.Read(fd, buf)
		if n <= 0 || err != nil {
			break
		}
		off := 0
		for off+syscall.SizeofInotifyEvent <= n {
			ev := (*syscall.InotifyEvent)(unsafe.Pointer(&buf[off]))
			name := strings.TrimRight(string(buf[off+syscall.SizeofInotifyEvent:off+syscall.SizeofInotifyEvent+int(ev.Len)]), "\x00")
			events = append(events, fmt.Sprintf("%x:%s", ev.Mask, name))
			if name == "id.sbxmap" && ev.Mask&syscall.IN_DELETE != 0 {
				fmt.Println("REPLAY-OUTCOME: ASSERT-FAILED: the previous version is removed before the new one is in place")
				t.Fatalf("final path deleted during flush: %v", events)
			}
			if name == "id.sbxmap" && ev.Mask&(syscall.IN_CREATE|syscall.IN_MODIFY|syscall.IN_CLOSE_WRITE) != 0 {
				fmt.Println("REPLAY-OUTCOME: ASSERT-FAILED: new metadata is written to the temporary file only, never to the final path")
				t.Fatalf("final path written in place: %v", events)
			}
			off += syscall.SizeofInotifyEvent + int(ev.Len)
		}
	}
	if ferr == nil {
		moved := false
		for _, e := range events {
			if strings.HasSuffix(e, ":id.sbxmap") && strings.HasPrefix(e, "80:") {
				moved = true
			}
		}
		if !moved {
			fmt.Println("REPLAY-OUTCOME: ASSERT-FAILED: the update ends with one rename of the temporary file onto the final path")
			t.Fatalf("no rename onto the final path: %v", events)
		}
		if sc.dirty {
			fmt.Println("REPLAY-OUTCOME: ASSERT-FAILED: a successful flush clears the dirty flag")
			t.Fatal("dirty after successful flush")
		}
		if _, err := LoadSidecar(final); err != nil {
			fmt.Println("REPLAY-OUTCOME: ASSERT-FAILED: after a crash the final path holds the previous or the new version, never a torn one")
			t.Fatalf("flushed sidecar unreadable: %v", err)
		}
	}
	fmt.Println("REPLAY-OUTCOME: OK")
}
