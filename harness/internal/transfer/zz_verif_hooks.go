package transfer

// vOnMark is called by the replay-instrumented copy of recvFileStateMux.markChunkComplete (the call is
// inserted into a copy of the current source by the replay overlay; the repository itself is untouched).
var vOnMark func(path string, chunkSize uint32, idx uint32, chunkLen uint32)

// vRecvYield is called by the replay-instrumented copy of the stream reader right before it registers
// as a waiter for a file that was not announced yet (native replays widen that window with it).
var vRecvYield = func() {}

// vFinalizeYield is called by the replay-instrumented copy of multistream.go before every FileDoneFn
// callback site (native replays widen the window in which a file is being finalised).
var vFinalizeYield = func() {}

// vBeforeCreate is called by the replay-instrumented copy of handleFileBegin right before the data file
// is created / re-created at its full size.
var vBeforeCreate = func(path string) {}
