package transfer

// Native replay driver for the receiver closure units: the real RecvManifestMultiStream runs over the
// in-memory transport against a scripted sender that announces one file and puts the model's frame on
// the data stream. A hook inserted (by the replay overlay, from the current source) at the top of
// recvFileStateMux.markChunkComplete observes the disk at the instant a chunk is marked.

import (
	"bytes"
	"context"
	"encoding/binary"
	"fmt"
	"hash/crc32"
	"os"
	"path/filepath"
	"sync"
	"testing"
	"time"

	"github.com/sheerbytes/sheerbytes/pkg/manifest"
)

func TestVerifRecvReplay(t *testing.T) {
	vLoad()
	total := int(vNumRaw("totalMinus1")) + 1
	size := int64(vNumRaw("size"))
	const cs = 4
	resume := vNumRaw("sidecar") == 0
	old := vBytesRaw("oldContent", int(size))
	bitmap := vBytesRaw("bitmap", (total+7)/8)
	idx := uint32(vNumRaw("chunkIndex"))
	ln := uint32(vNumRaw("chunkLen"))
	crcModel := uint32(vNumRaw("chunkCRC"))
	plen := int(vNumRaw("payloadBytes"))
	payload := vBytesRaw("payload", plen)
	if int(chunkTotal(size, cs)) != total {
		fmt.Println("REPLAY-OUTCOME: ASSUME-FAILED")
		return
	}
	// the model's CRC relation, re-established with the real CRC: "matches" iff the engine's accepted
	// condition held for the announced length
	crcWire := crcModel
	k := int(ln)
	if k >= 1 && k <= cs && k <= plen {
		real := crc32.Checksum(payload[:k], crc32cTable)
		if vNumRaw("crcMatches") == 1 {
			crcWire = real
		} else if crcWire == real {
			crcWire = real ^ 1
		}
	}
	// The previous file content is arbitrary and the receiver's decisions do not depend on it; the hook
	// below can tell "marked before written" only if it differs from the payload where the chunk goes.
	for i := 0; i < k && i < plen; i++ {
		if off := int(idx)*cs + i; off >= 0 && off < len(old) && old[off] == payload[i] {
			old[off] ^= 0xFF
		}
	}
	outDir := t.TempDir()
	item := manifest.FileItem{RelPath: "f", Size: size, ID: "id"}
	m := manifest.Manifest{Root: "", Items: []manifest.FileItem{item}, TotalBytes: size, FileCount: 1}
	if err := os.WriteFile(filepath.Join(outDir, "f"), old, 0o644); err != nil {
		t.Fatal(err)
	}
	if resume {
		scPath := SidecarPath(outDir, "", sidecarIdentifier(item))
		sc, err := LoadOrCreateSidecar(scPath, item.ID, size, cs)
		if err != nil {
			t.Fatal(err)
		}
		for i := 0; i < total; i++ {
			if bitmap[i/8]&(1<<uint(i%8)) != 0 {
				sc.MarkComplete(uint32(i))
			}
		}
		if err := sc.Flush(); err != nil {
			t.Fatal(err)
		}
	}
	key := fileKeyForItem(item)
	var hookMu sync.Mutex
	markedEarly := false
	vOnMark = func(path string, chunkSize uint32, i uint32, chunkLen uint32) {
		hookMu.Lock()
		defer hookMu.Unlock()
		if i != idx || int(chunkLen) > len(payload) {
			return
		}
		b, err := os.ReadFile(path)
		off := int(i) * int(chunkSize)
		if err != nil || off+int(chunkLen) > len(b) || !bytes.Equal(b[off:off+int(chunkLen)], payload[:chunkLen]) {
			markedEarly = true
		}
	}
	defer func() { vOnMark = nil }()

	t1, t2 := NewMockPair()
	ctx, cancel := context.WithTimeout(context.Background(), 5*time.Second)
	defer cancel()
	sconn, err := t1.Dial(ctx, "peer2")
	if err != nil {
		t.Fatal(err)
	}
	rconn, err := t2.Accept(ctx)
	if err != nil {
		t.Fatal(err)
	}
	var doneOK, doneBad int
	recvErr := make(chan error, 1)
	go func() {
		_, err := RecvManifestMultiStream(ctx, rconn, outDir, Options{Resume: resume, NoRootDir: true, FileDoneFn: func(rel string, ok bool) {
			hookMu.Lock()
			if ok {
				doneOK++
			} else {
				doneBad++
			}
			hookMu.Unlock()
		}})
		recvErr <- err
	}()
	control, err := sconn.OpenStream(ctx)
	if err != nil {
		t.Fatal(err)
	}
	if err := writeControlHeader(control, m); err != nil {
		t.Fatal(err)
	}
	data, err := sconn.OpenStream(ctx)
	if err != nil {
		t.Fatal(err)
	}
	if err := writeDataStreams(control, DataStreams{Count: 1}); err != nil {
		t.Fatal(err)
	}
	go func() { // swallow whatever the receiver says on the control stream
		for {
			if _, _, err := readControlMessage(control); err != nil {
				return
			}
		}
	}()
	if err := writeFileBegin(control, FileBegin{RelPath: "f", FileSize: uint64(size), ChunkSize: cs, StreamID: key, HashAlg: HashAlgCRC32C}); err != nil {
		t.Fatal(err)
	}
	hdr := make([]byte, dataChunkHeaderLen)
	binary.BigEndian.PutUint64(hdr[0:8], key)
	binary.BigEndian.PutUint32(hdr[8:12], idx)
	binary.BigEndian.PutUint32(hdr[12:16], ln)
	binary.BigEndian.PutUint32(hdr[16:20], crcWire)
	_, _ = data.Write(append(hdr, payload...))
	_ = data.Close()
	time.Sleep(300 * time.Millisecond)
	_ = control.Close()
	var rerr error
	select {
	case rerr = <-recvErr:
	case <-time.After(6 * time.Second):
		fmt.Println("REPLAY-OUTCOME: ASSERT-FAILED: receiver hangs")
		t.Fatal("receiver hangs")
	}
	hookMu.Lock()
	defer hookMu.Unlock()
	fail := func(msg string) {
		fmt.Println("REPLAY-OUTCOME: ASSERT-FAILED: " + msg)
		t.Fatalf("%s (err=%v ok=%d bad=%d)", msg, rerr, doneOK, doneBad)
	}
	got, _ := os.ReadFile(filepath.Join(outDir, "f"))
	accepted := k >= 1 && k <= cs && k <= plen && int(idx) < total && crcWire == crc32.Checksum(payload[:k], crc32cTable)
	want := append([]byte{}, old...)
	if accepted {
		copy(want[int(idx)*cs:], payload[:k])
	}
	if markedEarly {
		fail("a chunk is marked complete only after its write has returned")
	}
	if !bytes.Equal(got, want) {
		if accepted {
			fail("the chunk is written at index x chunkSize")
		}
		fail("only a complete, in-range chunk with a matching CRC is written")
	}
	if !accepted && rerr == nil {
		fail("a damaged, truncated or out-of-range frame fails the transfer")
	}
	if doneOK+doneBad > 1 {
		fail("a file is finalised at most once")
	}
	if doneOK == 1 {
		// complete only if every chunk is on disk per metadata: recompute from the bitmap
		missing := 0
		for i := 0; i < total; i++ {
			have := resume && bitmap[i/8]&(1<<uint(i%8)) != 0
			if accepted && uint32(i) == idx {
				have = true
			}
			if !have {
				missing++
			}
		}
		if resume && missing > 0 {
			fail("a file is reported complete only when no chunk is missing")
		}
	}
	fmt.Println("REPLAY-OUTCOME: OK")
}
