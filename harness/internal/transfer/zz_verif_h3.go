package transfer

import (
	"github.com/sheerbytes/sheerbytes/pkg/manifest"
)

// ---------------------------------------------------------------------------------------------
// C17: exactly-once dispatch and a single FileEnd, bounded model checking over interleavings.
//
// The step functions are the repository's own methods (nextChunkToSend, markChunkDone, trySendEnd,
// Bitmap.Get, chunkSizeForIndex). The glue mirrors SendManifestMultiStream:
//   take(w)   = nextTask:  state.nextChunkToSend(); if !ok && state.trySendEnd() { sendFileEnd }
//   finish(w) = worker:    if state.markChunkDone() { sendFileEnd }
//   report    = applyResumeInfo: [verifyNeeded: state.verifyPending = true]; state.plan = plan
//   verdict   = hash goroutine:  [mismatch: resendChunk = v; resendPending = true]; verifyPending = false
// Methods are mutex-protected, so a sequence of these steps is every interleaving at the granularity
// at which the real goroutines can differ.

type vC17 struct {
	s            *sendFileState
	total        int
	holding      [3]int
	dispatched   [8]int
	afterPlan    [8]int
	ends         int
	reported     bool
	verifyArmed  bool
	verdictIn    bool
	mismatch     bool
	vChunk       uint32
	bitmap       *Bitmap
	force        uint32
	lateDispatch bool
}

func (m *vC17) end(where string) {
	m.ends++
	vAssert(m.ends == 1, "FileEnd emitted at most once")
	for w := 0; w < 3; w++ {
		vAssert(m.holding[w] < 0, "FileEnd only after all handed-out chunks were written")
	}
	vAssert(!m.s.verifyPending, "FileEnd only after verification has been decided")
	vAssert(!m.s.resendPending, "FileEnd only after the re-send caused by verification has gone out")
	vCover("C17 FileEnd " + where)
	for i := 0; i < m.total; i++ {
		skippable := m.bitmap != nil && m.bitmap.Get(i) && uint32(i) < m.force
		if !skippable {
			vAssert(m.dispatched[i] >= 1, "every chunk the receiver still needs was handed out before FileEnd")
		}
	}
}

func (m *vC17) take(w int) {
	vAssume(m.holding[w] < 0)
	idx, ln, ok := m.s.nextChunkToSend()
	if ok {
		vAssert(m.ends == 0, "nothing is handed out after FileEnd")
		vAssert(int(idx) < m.total, "handed-out index below the chunk count")
		vAssert(ln == chunkSizeForIndex(m.s.item.Size, m.s.chunkSize, idx), "handed-out length is the geometry's")
		m.holding[w] = int(idx)
		m.dispatched[idx]++
		if m.reported {
			m.afterPlan[idx]++
			isResend := m.verdictIn && m.mismatch && idx == m.vChunk
			if m.bitmap != nil && m.bitmap.Get(int(idx)) && idx < m.force && !isResend {
				vAssert(false, "a chunk reported present below the verification point is not sent once the report is known")
			}
		}
		return
	}
	if m.s.trySendEnd() {
		m.end("from take")
	}
}

func (m *vC17) finish(w int) {
	vAssume(m.holding[w] >= 0)
	m.holding[w] = -1
	if m.s.markChunkDone() {
		m.end("from finish")
	}
}

func vC17Run(maxTotal, workers, steps int, withResume bool) {
	total := vChoice("total", maxTotal+1)
	cs := uint32(4)
	size := vI64("size")
	vAssume(size >= 0)
	vAssume(size <= int64(maxTotal)*4)
	vAssume(chunkTotal(size, cs) == uint32(total))
	m := &vC17{total: total}
	m.s = &sendFileState{item: manifest.FileItem{RelPath: "f", Size: size}, chunkSize: cs, totalChunks: uint32(total)}
	for w := 0; w < 3; w++ {
		m.holding[w] = -1
	}
	// the resume report (arrives at a symbolic step, or never)
	var bmBytes []byte
	verifyNeeded := false
	if withResume {
		bmBytes = vBytes("bitmap", (total+7)/8)
		if total%8 != 0 && total > 0 {
			vAssume(bmBytes[len(bmBytes)-1]>>uint(total%8) == 0)
		}
		m.force = vU32("forceSendFrom")
		vAssume(m.force <= uint32(total))
		m.vChunk = vU32("verifiedChunk")
		verifyNeeded = vBool("verifyNeeded")
		m.mismatch = vBool("mismatch")
		if verifyNeeded {
			vAssume(m.vChunk < uint32(total)) // applyResumeInfo: verifyNeeded implies verifiedChunk < totalChunks
		}
	}
	for step := 0; step < steps; step++ {
		// enabled events (state is concrete here, so this is a concrete menu):
		//   take by the lowest idle worker (workers are symmetric), finish by any holding worker,
		//   arrival of the report, arrival of the verdict
		var menu [8]int
		n := 0
		for w := 0; w < workers; w++ {
			if m.holding[w] < 0 {
				menu[n] = w
				n++
				break
			}
		}
		for w := 0; w < workers; w++ {
			if m.holding[w] >= 0 {
				menu[n] = 10 + w
				n++
			}
		}
		if withResume && !m.reported && total > 0 && len(bmBytes) > 0 {
			menu[n] = 20
			n++
		}
		if m.verifyArmed && !m.verdictIn {
			menu[n] = 21
			n++
		}
		if n == 0 {
			break
		}
		ev := menu[vChoice("ev", n)]
		switch {
		case ev < 10:
			m.take(ev)
		case ev < 20:
			m.finish(ev - 10)
		case ev == 20:
			// report arrives (applyResumeInfo)
			m.reported = true
			m.bitmap = &Bitmap{bits: total, data: bmBytes}
			plan := &resumePlan{bitmap: m.bitmap, forceSendFrom: m.force, totalChunks: uint32(total), verifiedChunk: m.vChunk}
			if verifyNeeded {
				m.s.mu.Lock()
				m.s.verifyPending = true
				m.s.mu.Unlock()
				m.verifyArmed = true
			}
			m.s.mu.Lock()
			m.s.plan = plan
			m.s.mu.Unlock()
		default:
			// verification verdict arrives (hash goroutine)
			m.verdictIn = true
			m.s.mu.Lock()
			if m.mismatch {
				m.s.resendChunk = m.vChunk
				m.s.resendPending = true
			}
			m.s.verifyPending = false
			m.s.mu.Unlock()
		}
	}
	m.invariants()
	// progress: with every worker idle and nothing pending, taking until nothing is left ends the file
	idle := true
	for w := 0; w < 3; w++ {
		if m.holding[w] >= 0 {
			idle = false
		}
	}
	if idle && m.ends == 0 && (!m.verifyArmed || m.verdictIn) {
		for k := 0; k < total+2 && m.ends == 0; k++ {
			m.take(0)
			if m.holding[0] >= 0 {
				m.finish(0)
			}
		}
		m.invariants()
		vAssert(m.ends == 1, "an idle file with nothing pending reaches FileEnd")
	}
}

// invariants hold after every step
func (m *vC17) invariants() {
	for i := 0; i < m.total; i++ {
		extra := 0
		if m.verdictIn && m.mismatch && uint32(i) == m.vChunk {
			extra = 1
		}
		vAssert(m.dispatched[i] <= 1+extra, "a chunk is handed to at most one worker (plus the single verification re-send)")
	}
	if m.ends == 1 {
		vCover("C17 run ended with FileEnd")
		if m.verdictIn && m.mismatch {
			vAssert(m.dispatched[m.vChunk] >= 1, "the chunk that failed verification was sent")
		}
	}
}

func H_C17_plain()       { vC17Run(3, 2, 7, false) }
func H_C17_resume()      { vC17Run(2, 2, 8, true) }
func H_C17_resume_mid()  { vC17Run(3, 2, 9, true) }
func H_C17_plain_deep()  { vC17Run(4, 3, 10, false) }
func H_C17_resume_deep() { vC17Run(4, 3, 10, true) }
