package transfer

// Whole-function harnesses: the real RecvManifestMultiStream runs from its entry against a scripted
// connection (real Go code below) whose control stream carries a header with a hostile manifest and
// hostile records. The JSON codec is opaque in the engine (Marshal = arbitrary bytes remembered with
// the value, Unmarshal of those bytes = that value) and real natively, so models replay.

import (
	"context"
	"encoding/binary"
	"encoding/json"
	"errors"
	"net"
	"path/filepath"
	"strings"

	"github.com/sheerbytes/sheerbytes/pkg/manifest"
)

type vScriptConn struct {
	streams []Stream
	next    int
}

func (c *vScriptConn) OpenStream(ctx context.Context) (Stream, error) {
	return nil, errors.New("scripted conn: no outgoing streams")
}
func (c *vScriptConn) AcceptStream(ctx context.Context) (Stream, error) {
	if c.next >= len(c.streams) {
		return nil, errors.New("scripted conn: no more streams")
	}
	s := c.streams[c.next]
	c.next++
	return s, nil
}
func (c *vScriptConn) RemoteAddr() net.Addr { return nil }
func (c *vScriptConn) Close() error         { return nil }

func vControlBytes(m manifest.Manifest) []byte {
	jb, err := json.Marshal(m)
	vAssume(err == nil)
	var in []byte
	in = append(in, controlMagic...)
	in = binary.BigEndian.AppendUint32(in, uint32(len(jb)))
	in = append(in, jb...)
	return in
}

// ---------------------------------------------------------------------------------------------
// C07: confinement to the output directory

// H_C07_validator: whatever path passes validateRelPath stays inside the base directory once joined.
func H_C07_validator() {
	p := vString("path", vChoice("len", 6))
	vAssume(validateRelPath(p) == nil)
	joined := filepath.Join("/out", filepath.FromSlash(p))
	vAssert(joined == "/out" || strings.HasPrefix(joined, "/out/"), "a validated relative path stays inside the base directory")
	vCover("C07 validator")
}

// H_C07_receiver: hostile manifest root, directory entry, file entry / FileBegin path and item id.
func H_C07_receiver()        { vC07Receiver(false) }
func H_C07_receiver_legacy() { vC07Receiver(true) }

func vC07Receiver(legacy bool) {
	var m manifest.Manifest
	m.Root = vString("root", vChoice("rootLen", 4))
	which := vChoice("hostile", 3)
	fileItem := manifest.FileItem{RelPath: "f", Size: 2, ID: "id"}
	switch which {
	case 0: // hostile directory entry
		m.Items = []manifest.FileItem{{RelPath: vString("dirPath", 1+vChoice("dirLen", 4)), IsDir: true}}
	case 1: // hostile file path (manifest and FileBegin agree, as a hostile sender would make them)
		fileItem.RelPath = vString("filePath", 1+vChoice("fileLen", 4))
		m.Items = []manifest.FileItem{fileItem}
	default: // hostile item id (names the resume metadata file)
		fileItem.ID = vString("itemID", 1+vChoice("idLen", 4))
		m.Items = []manifest.FileItem{fileItem}
	}
	control := &vMemStream{buf: vControlBytes(m)}
	_ = writeDataStreams(control, DataStreams{Count: 1})
	if which != 0 {
		// the record is written without the sender-side validation a hostile peer would skip
		control.buf = append(control.buf, controlTypeFileBegin)
		control.buf = binary.BigEndian.AppendUint16(control.buf, uint16(len(fileItem.RelPath)))
		control.buf = append(control.buf, fileItem.RelPath...)
		control.buf = binary.BigEndian.AppendUint64(control.buf, uint64(fileItem.Size))
		control.buf = binary.BigEndian.AppendUint32(control.buf, 4)
		control.buf = binary.BigEndian.AppendUint64(control.buf, 0)
		control.buf = append(control.buf, HashAlgCRC32C, 0, 0, 0, 0, 0, 0, 0, 0, 0, 0, 0, 0)
	}
	conn := &vScriptConn{streams: []Stream{control, &vMemStream{}}}
	parent := vTempDir()
	out := parent + "/out"
	opts := Options{NoRootDir: vBool("noRootDir"), Resume: vBool("resume")}
	if legacy {
		_, _ = RecvManifestMultiStreamLegacy(vContext("ctx", false), conn, out, opts)
	} else {
		_, _ = RecvManifestMultiStream(vContext("ctx", false), conn, out, opts)
	}
	vAssert(vFSConfined(parent, "out"), "the receiver creates, modifies and deletes nothing outside its output directory")
	vCover("C07 receiver ran")
}
