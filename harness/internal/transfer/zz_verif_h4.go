package transfer

// Whole-function harnesses: the real RecvManifestMultiStream runs from its entry against a scripted
// connection (real Go code below) whose control stream carries a header with a hostile manifest and
// hostile records. The JSON codec is opaque in the engine (Marshal = arbitrary bytes remembered with
// the value, Unmarshal of those bytes = that value) and real natively, so models replay.

import (
	"context"
	"encoding/binary"
	"encoding/json"
	"errors"
	"hash/crc32"
	"net"
	"os"
	"path/filepath"
	"strings"
	"time"

	"github.com/sheerbytes/sheerbytes/pkg/manifest"
)

type vScriptConn struct {
	streams []Stream
	next    int
}

func (c *vScriptConn) OpenStream(ctx context.Context) (Stream, error) {
	return nil, errors.New("scripted conn: no outgoing streams")
}
func (c *vScriptConn) AcceptStream(ctx context.Context) (Stream, error) {
	for _, s := range c.streams {
		if ms, ok := s.(*vMemStream); ok {
			ms.duplex = true
		}
	}
	if c.next >= len(c.streams) {
		return nil, errors.New("scripted conn: no more streams")
	}
	s := c.streams[c.next]
	c.next++
	return s, nil
}
func (c *vScriptConn) RemoteAddr() net.Addr { return nil }
func (c *vScriptConn) Close() error         { return nil }

func vControlBytes(m manifest.Manifest) []byte {
	jb, err := json.Marshal(m)
	vAssume(err == nil)
	var in []byte
	in = append(in, controlMagic...)
	in = binary.BigEndian.AppendUint32(in, uint32(len(jb)))
	in = append(in, jb...)
	return in
}

// ---------------------------------------------------------------------------------------------
// C07: confinement to the output directory

// H_C07_validator: whatever path passes validateRelPath stays inside the base directory once joined.
func H_C07_validator() {
	p := vString("path", vChoice("len", 6))
	vAssume(validateRelPath(p) == nil)
	joined := filepath.Join("/out", filepath.FromSlash(p))
	vAssert(joined == "/out" || strings.HasPrefix(joined, "/out/"), "a validated relative path stays inside the base directory")
	vCover("C07 validator")
}

// H_C07_receiver: hostile manifest root, directory entry, file entry / FileBegin path and item id.
func H_C07_receiver()        { vC07Receiver(false) }
func H_C07_receiver_legacy() { vC07Receiver(true) }

func vC07Receiver(legacy bool) {
	var m manifest.Manifest
	m.Root = vString("root", vChoice("rootLen", 4))
	which := vChoice("hostile", 3)
	fileItem := manifest.FileItem{RelPath: "f", Size: 2, ID: "id"}
	switch which {
	case 0: // hostile directory entry
		m.Items = []manifest.FileItem{{RelPath: vString("dirPath", 1+vChoice("dirLen", 4)), IsDir: true}}
	case 1: // hostile file path (manifest and FileBegin agree, as a hostile sender would make them)
		fileItem.RelPath = vString("filePath", 1+vChoice("fileLen", 4))
		m.Items = []manifest.FileItem{fileItem}
	default: // hostile item id (names the resume metadata file), for a data file and for a zero-length file
		fileItem.ID = vString("itemID", []int{1, 2, 3, 4, 7}[vChoice("idLen", 5)]) // 7: shortest id that climbs two levels
		if vBool("emptyFile") {
			fileItem.Size = 0
		}
		m.Items = []manifest.FileItem{fileItem}
	}
	control := &vMemStream{buf: vControlBytes(m)}
	_ = writeDataStreams(control, DataStreams{Count: 1})
	if which != 0 {
		// the record is written without the sender-side validation a hostile peer would skip
		control.buf = append(control.buf, controlTypeFileBegin)
		control.buf = binary.BigEndian.AppendUint16(control.buf, uint16(len(fileItem.RelPath)))
		control.buf = append(control.buf, fileItem.RelPath...)
		control.buf = binary.BigEndian.AppendUint64(control.buf, uint64(fileItem.Size))
		control.buf = binary.BigEndian.AppendUint32(control.buf, 4)
		control.buf = binary.BigEndian.AppendUint64(control.buf, 0)
		control.buf = append(control.buf, HashAlgCRC32C, 0, 0, 0, 0, 0, 0, 0, 0, 0, 0, 0, 0)
	}
	conn := &vScriptConn{streams: []Stream{control, &vMemStream{}}}
	parent := vTempDir()
	out := parent + "/out"
	opts := Options{NoRootDir: vBool("noRootDir"), Resume: vBool("resume")}
	if legacy {
		_, _ = RecvManifestMultiStreamLegacy(vContext("ctx", false), conn, out, opts)
	} else {
		_, _ = RecvManifestMultiStream(vContext("ctx", false), conn, out, opts)
	}
	vAssert(vFSConfined(parent, "out"), "the receiver creates, modifies and deletes nothing outside its output directory")
	vCover("C07 receiver ran")
}

// ---------------------------------------------------------------------------------------------
// C02 (receiver side): no false success. One file of 1..8 bytes in 4-byte chunks is announced; every
// chunk frame is good, has a wrong CRC field, a corrupted payload, is missing, or is cut short; the
// control stream ends after FileBegin, after FileEnd, or after End. The engine explores every order in
// which the receiver's main select can observe the resulting events; natively the scenario is repeated
// because Go picks among ready select cases at random.

func H_C02_receiver()      { vC02Receiver([]int{2, 5}) }
func H_C02_receiver_deep() { vC02Receiver([]int{1, 4, 5, 8}) }

func vC02Receiver(sizes []int) {
	for iter := 0; iter < vRepeat(400); iter++ {
		vResetInputs()
		if vC02ReceiverOnce(sizes) {
			return
		}
	}
}

func vC02ReceiverOnce(sizes []int) bool {
	size := sizes[vChoice("sizeIdx", len(sizes))]
	src := vBytes("src", size)
	item := manifest.FileItem{RelPath: "f", Size: int64(size), ID: "id"}
	m := manifest.Manifest{Items: []manifest.FileItem{item}, TotalBytes: int64(size), FileCount: 1}
	key := fileKeyForItem(item)
	control := &vMemStream{buf: vControlBytes(m)}
	_ = writeDataStreams(control, DataStreams{Count: 1})
	_ = writeFileBegin(control, FileBegin{RelPath: "f", FileSize: uint64(size), ChunkSize: 4, StreamID: key, HashAlg: HashAlgCRC32C})
	data := &vMemStream{}
	total := (size + 3) / 4
	allGood := true
	for i := 0; i < total; i++ {
		lo, hi := i*4, i*4+4
		if hi > size {
			hi = size
		}
		payload := append([]byte{}, src[lo:hi]...)
		sum := crc32.Checksum(payload, crc32cTable)
		kind := vChoice("frame", 5)
		if kind != 0 {
			allGood = false
		}
		vTag([]string{"frame=good", "frame=badcrc", "frame=corrupt", "frame=missing", "frame=cut"}[kind])
		switch kind {
		case 1: // wrong CRC field
			bad := vU32("badCRC")
			vAssume(bad != sum)
			sum = bad
		case 2: // payload corrupted in flight, CRC of the original
			k := vChoice("flipAt", len(payload))
			x := vU8("flipTo")
			vAssume(x != payload[k])
			payload[k] = x
			// the corruption is one that CRC-32C detects (every change of up to 4 bytes is; a 2^-32 collision
			// for longer payloads is outside the claim)
			vAssume(crc32.Checksum(payload, crc32cTable) != sum)
		case 3: // frame never arrives
			continue
		}
		hdr := make([]byte, dataChunkHeaderLen)
		binary.BigEndian.PutUint64(hdr[0:8], key)
		binary.BigEndian.PutUint32(hdr[8:12], uint32(i))
		binary.BigEndian.PutUint32(hdr[12:16], uint32(len(payload)))
		binary.BigEndian.PutUint32(hdr[16:20], sum)
		data.buf = append(data.buf, hdr...)
		if kind == 4 { // cut short: the connection is lost inside the payload
			data.buf = append(data.buf, payload[:len(payload)-1]...)
			break
		}
		data.buf = append(data.buf, payload...)
	}
	tail := vChoice("controlTail", 3)
	vTag([]string{"control=FileEnd+End", "control=FileEnd", "control=eof"}[tail])
	switch tail {
	case 0:
		_ = writeFileEnd(control, FileEnd{StreamID: key})
		_ = writeControlEnd(control)
	case 1:
		_ = writeFileEnd(control, FileEnd{StreamID: key})
	}
	conn := &vScriptConn{streams: []Stream{control, data}}
	out := vTempDir() + "/out"
	failedFiles := 0
	opts := Options{NoRootDir: true, Resume: vBool("resume"), FileDoneFn: func(rel string, ok bool) {
		if !ok {
			failedFiles++
		}
	}}
	_, err := RecvManifestMultiStream(vContext("ctx", false), conn, out, opts)
	if err != nil {
		vCover("C02 receiver: reports failure")
		return false
	}
	vCover("C02 receiver: reports success")
	got, rerr := os.ReadFile(out + "/f")
	ok := rerr == nil && len(got) == size && vBytesEq(got, src) && failedFiles == 0
	if !vSymbolic() {
		if ok {
			return false // natively: try again, another schedule may expose it
		}
		vAssert(false, "success is reported only if the received file equals the source and no file failed")
		return true
	}
	vAssert(rerr == nil && len(got) == size, "success is reported only if the output file exists with the announced size")
	vAssert(vBytesEq(got, src), "success is reported only if the received file equals the source")
	vAssert(failedFiles == 0, "success is never reported after a file was declared failed")
	if allGood {
		vCover("C02 receiver: clean transfer succeeds")
	}
	return false
}

// ---------------------------------------------------------------------------------------------
// C01 / C03 (receiver side): a healthy sender delivers a small tree (a directory, a zero-length file
// in it, one data file around the chunk boundary) with frames in either order: under every schedule
// of the receiver's goroutines the call returns success and the tree is exactly the announced one.

func H_C01_tree()      { vC01Tree([]int{5}, false) }
func H_C01_tree_deep() { vC01Tree([]int{1, 4, 5, 8}, true) }

func vC01Tree(sizes []int, full bool) {
	size := sizes[vChoice("sizeIdx", len(sizes))]
	src := vBytes("src", size)
	dir := manifest.FileItem{RelPath: "d", IsDir: true}
	empty := manifest.FileItem{RelPath: "d/e", Size: 0, ID: "ide"}
	file := manifest.FileItem{RelPath: "f", Size: int64(size), ID: "idf"}
	m := manifest.Manifest{Root: "r", Items: []manifest.FileItem{dir, empty, file}, TotalBytes: int64(size), FileCount: 2, FolderCount: 1}
	kE, kF := fileKeyForItem(empty), fileKeyForItem(file)
	control := &vMemStream{buf: vControlBytes(m)}
	_ = writeDataStreams(control, DataStreams{Count: 1})
	emptyFirst := true
	if full {
		emptyFirst = vBool("emptyFirst")
	}
	if emptyFirst {
		_ = writeFileBegin(control, FileBegin{RelPath: "d/e", FileSize: 0, ChunkSize: 4, StreamID: kE, HashAlg: HashAlgCRC32C})
		_ = writeFileEnd(control, FileEnd{StreamID: kE})
	}
	_ = writeFileBegin(control, FileBegin{RelPath: "f", FileSize: uint64(size), ChunkSize: 4, StreamID: kF, HashAlg: HashAlgCRC32C})
	data := &vMemStream{}
	total := (size + 3) / 4
	reversed := vBool("reversed")
	for n := 0; n < total; n++ {
		i := n
		if reversed {
			i = total - 1 - n
		}
		lo, hi := i*4, i*4+4
		if hi > size {
			hi = size
		}
		hdr := make([]byte, dataChunkHeaderLen)
		binary.BigEndian.PutUint64(hdr[0:8], kF)
		binary.BigEndian.PutUint32(hdr[8:12], uint32(i))
		binary.BigEndian.PutUint32(hdr[12:16], uint32(hi-lo))
		binary.BigEndian.PutUint32(hdr[16:20], crc32.Checksum(src[lo:hi], crc32cTable))
		data.buf = append(append(data.buf, hdr...), src[lo:hi]...)
	}
	_ = writeFileEnd(control, FileEnd{StreamID: kF})
	if !emptyFirst {
		_ = writeFileBegin(control, FileBegin{RelPath: "d/e", FileSize: 0, ChunkSize: 4, StreamID: kE, HashAlg: HashAlgCRC32C})
		_ = writeFileEnd(control, FileEnd{StreamID: kE})
	}
	_ = writeControlEnd(control)
	conn := &vScriptConn{streams: []Stream{control, data}}
	out := vTempDir() + "/out"
	noRoot := false
	if full {
		noRoot = vBool("noRootDir")
	}
	base := out + "/r"
	if noRoot {
		base = out
	}
	okFiles := 0
	_, err := RecvManifestMultiStream(vContext("ctx", false), conn, out, Options{NoRootDir: noRoot, Resume: vBool("resume"), FileDoneFn: func(rel string, ok bool) {
		if ok {
			okFiles++
		}
	}})
	vAssert(err == nil, "a healthy transfer of a valid tree succeeds")
	vAssert(okFiles == 2, "every file of the manifest is confirmed exactly once")
	got, rerr := os.ReadFile(base + "/f")
	vAssert(rerr == nil && len(got) == size, "the data file exists with the announced length")
	vAssert(vBytesEq(got, src), "the data file is byte-for-byte the source")
	e, eerr := os.ReadFile(base + "/d/e")
	vAssert(eerr == nil && len(e) == 0, "the zero-length file exists and is empty")
	st, serr := os.Stat(base + "/d")
	vAssert(serr == nil && st.IsDir(), "the directory of the manifest exists")
	vCover("C01 tree delivered")
}

// H_C01_streamid: virtual stream ids of a multi-connection transfer never collide.
func H_C01_streamid() {
	c1, c2 := vInt("conn1"), vInt("conn2")
	s1, s2 := vU64("stream1"), vU64("stream2")
	vAssume(c1 >= 0 && c1 < 256)
	vAssume(c2 >= 0 && c2 < 256)
	vAssume(s1 < 1<<56)
	vAssume(s2 < 1<<56)
	vAssume(c1 != c2 || s1 != s2)
	vAssert(makeVirtualStreamID(c1, s1) != makeVirtualStreamID(c2, s2), "distinct (connection, stream) pairs get distinct virtual stream ids")
	vCover("C01 stream ids")
}

// ---------------------------------------------------------------------------------------------
// C03 / C04: a resumed transfer. The receiver finds a partial file and resume metadata (symbolic
// bitmap) from an earlier run; the marked chunks on disk equal the source (what C05 guarantees). The
// scripted sender asks for the resume report and sends every chunk the report does not mark, plus -
// like the real sender's verification tail - optionally one chunk that is already there, possibly
// after the file is complete (late duplicate).

func H_C04_resume()      { vC04Resume([]int{5}, false) }
func H_C04_resume_deep() { vC04Resume([]int{5}, true) }

func vC04Resume(sizes []int, full bool) {
	size := sizes[vChoice("sizeIdx", len(sizes))]
	total := (size + 3) / 4
	src := vBytes("src", size)
	item := manifest.FileItem{RelPath: "f", Size: int64(size), ID: "idf"}
	m := manifest.Manifest{Items: []manifest.FileItem{item}, TotalBytes: int64(size), FileCount: 1}
	key := fileKeyForItem(item)
	// state left behind by the interrupted run
	bits := vU8("bitmap")
	vAssume(bits>>uint(total) == 0)
	old := vBytes("old", size)
	for i := 0; i < total; i++ {
		if bits&(1<<uint(i)) != 0 {
			lo, hi := i*4, i*4+4
			if hi > size {
				hi = size
			}
			for k := lo; k < hi; k++ {
				vAssume(old[k] == src[k]) // a marked chunk is safely in the file (C05)
			}
		}
	}
	out := vTempDir() + "/out"
	vTempFile("out/f", old)
	sc := &Sidecar{Path: SidecarPath(out, "", sidecarIdentifier(item)), FileID: item.ID, FileSize: int64(size), ChunkSize: 4, TotalChunks: uint32(total),
		bitmap: &Bitmap{bits: total, data: []byte{bits}}, dirty: true}
	vAssume(sc.Flush() == nil)

	control := &vMemStream{buf: vControlBytes(m)}
	_ = writeDataStreams(control, DataStreams{Count: 1})
	_ = writeFileBegin(control, FileBegin{RelPath: "f", FileSize: uint64(size), ChunkSize: 4, StreamID: key, HashAlg: HashAlgCRC32C})
	_ = writeResumeRequest(control, ResumeRequest{FileID: item.ID, StreamID: key})
	data := &vMemStream{}
	frame := func(i int) {
		lo, hi := i*4, i*4+4
		if hi > size {
			hi = size
		}
		hdr := make([]byte, dataChunkHeaderLen)
		binary.BigEndian.PutUint64(hdr[0:8], key)
		binary.BigEndian.PutUint32(hdr[8:12], uint32(i))
		binary.BigEndian.PutUint32(hdr[12:16], uint32(hi-lo))
		binary.BigEndian.PutUint32(hdr[16:20], crc32.Checksum(src[lo:hi], crc32cTable))
		data.buf = append(append(data.buf, hdr...), src[lo:hi]...)
	}
	dupe := total // which present-or-not chunk is sent a second time (total = none)
	dupFirst := true
	if full {
		dupe = vChoice("duplicate", total+1)
		dupFirst = vBool("duplicateFirst")
	} else if vBool("duplicateChunk0") {
		dupe = 0
	}
	if dupe < total && dupFirst {
		frame(dupe)
	}
	for i := 0; i < total; i++ {
		if bits&(1<<uint(i)) == 0 {
			frame(i)
		}
	}
	if dupe < total && !dupFirst {
		frame(dupe) // arrives after everything missing: possibly after the file is complete
	}
	_ = writeFileEnd(control, FileEnd{StreamID: key})
	_ = writeControlEnd(control)
	conn := &vScriptConn{streams: []Stream{control, data}}
	_, err := RecvManifestMultiStream(vContext("ctx", false), conn, out, Options{NoRootDir: true, Resume: true, ResumeVerify: "last"})
	vAssert(err == nil, "a resumed transfer between healthy peers succeeds")
	got, rerr := os.ReadFile(out + "/f")
	vAssert(rerr == nil && len(got) == size, "the resumed file has the announced length")
	vAssert(vBytesEq(got, src), "after the resumed transfer the file equals the source")
	// what the receiver advertised: every FileResumeInfo on the control stream carries the metadata found on disk
	rep := &vMemStream{buf: control.out}
	seen := 0
	for {
		typ, msg, rerr := readControlMessage(rep)
		if rerr != nil {
			break
		}
		if typ == controlTypeFileResumeInfo {
			ri := msg.(FileResumeInfo)
			if seen == 0 {
				vAssert(len(ri.Bitmap) == 1 && ri.Bitmap[0] == bits, "chunks marked complete on disk are advertised to the sender as present")
				vAssert(ri.TotalChunks == uint32(total), "the advertised chunk count is the file's")
				if bits == 0 {
					vAssert(ri.LastVerifiedChunk == uint32(total), "with nothing marked no chunk is offered for verification")
				} else {
					vAssert(ri.LastVerifiedChunk < uint32(total) && bits&(1<<ri.LastVerifiedChunk) != 0 && bits>>(ri.LastVerifiedChunk+1) == 0, "the highest marked chunk is offered for verification")
				}
			}
			seen++
		}
	}
	_ = seen // the writer goroutine may not have run before the call returned; reports that were written are checked above
	vCover("C04 resumed transfer complete")
}

// ---------------------------------------------------------------------------------------------
// C03.a: every legal relative path is accepted by the validator (so that a tree with unusual but
// legal names can be transferred at all). Legal: non-empty, at most 1024 bytes, not absolute, no
// path segment equal to "..", no backslash-separated ".." segment either (the validator treats '\'
// as a separator for that purpose), no NUL.
func H_C03_names() {
	p := vString("path", 1+vChoice("lenMinus1", 6))
	legal := p[0] != '/'
	seg := 0 // length of the current segment
	dots := 0
	for i := 0; i <= len(p); i++ {
		if i == len(p) || p[i] == '/' || p[i] == '\\' {
			if seg == 2 && dots == 2 {
				legal = false
			}
			seg, dots = 0, 0
			continue
		}
		if p[i] == 0 {
			legal = false
		}
		seg++
		if p[i] == '.' {
			dots++
		}
	}
	if legal {
		vCover("C03 legal name")
		vAssert(validateRelPath(p) == nil, "a legal relative path is accepted")
	}
}

// H_C03_twofiles: two files share one data stream. File A resumes with chunk 0 already there; the
// sender sends A's missing chunk, then - as the verification tail does - chunk 0 again, which can
// arrive after A is complete and after A's FileEnd was handled; file B's only chunk follows on the same
// stream. Under every schedule both files complete and the call succeeds.
func H_C03_twofiles() {
	for iter := 0; iter < vRepeat(3); iter++ {
		vResetInputs()
		vC03TwoFilesOnce()
	}
}

func vC03TwoFilesOnce() {
	srcA, srcB := vBytes("srcA", 8), vBytes("srcB", 4)
	a := manifest.FileItem{RelPath: "a", Size: 8, ID: "ida"}
	b := manifest.FileItem{RelPath: "b", Size: 4, ID: "idb"}
	m := manifest.Manifest{Items: []manifest.FileItem{a, b}, TotalBytes: 12, FileCount: 2}
	kA, kB := fileKeyForItem(a), fileKeyForItem(b)
	out := vTempDir() + "/out"
	old := append(append([]byte{}, srcA[:4]...), 0, 0, 0, 0)
	vTempFile("out/a", old)
	sc := &Sidecar{Path: SidecarPath(out, "", sidecarIdentifier(a)), FileID: a.ID, FileSize: 8, ChunkSize: 4, TotalChunks: 2, bitmap: &Bitmap{bits: 2, data: []byte{1}}, dirty: true}
	vAssume(sc.Flush() == nil)
	control := &vMemStream{buf: vControlBytes(m)}
	_ = writeDataStreams(control, DataStreams{Count: 1})
	_ = writeFileBegin(control, FileBegin{RelPath: "a", FileSize: 8, ChunkSize: 4, StreamID: kA, HashAlg: HashAlgCRC32C})
	_ = writeFileBegin(control, FileBegin{RelPath: "b", FileSize: 4, ChunkSize: 4, StreamID: kB, HashAlg: HashAlgCRC32C})
	control.gateAt = len(control.buf) // natively: A's FileEnd reaches the receiver 150 ms later
	control.gateDelay = 150
	_ = writeFileEnd(control, FileEnd{StreamID: kA})
	_ = writeFileEnd(control, FileEnd{StreamID: kB})
	_ = writeControlEnd(control)
	data := &vMemStream{}
	put := func(key uint64, idx int, payload []byte) {
		hdr := make([]byte, dataChunkHeaderLen)
		binary.BigEndian.PutUint64(hdr[0:8], key)
		binary.BigEndian.PutUint32(hdr[8:12], uint32(idx))
		binary.BigEndian.PutUint32(hdr[12:16], uint32(len(payload)))
		binary.BigEndian.PutUint32(hdr[16:20], crc32.Checksum(payload, crc32cTable))
		data.buf = append(append(data.buf, hdr...), payload...)
	}
	put(kA, 1, srcA[4:8])
	data.gateAt = len(data.buf) // natively: the duplicate arrives 300 ms after A's last missing chunk
	data.gateDelay = 300
	put(kA, 0, srcA[0:4]) // duplicate of a chunk the receiver already has
	put(kB, 0, srcB)
	conn := &vScriptConn{streams: []Stream{control, data}}
	_, err := RecvManifestMultiStream(vContext("ctx", false), conn, out, Options{NoRootDir: true, Resume: true})
	vAssert(err == nil, "a resumed transfer of two files over one stream succeeds")
	gotA, e1 := os.ReadFile(out + "/a")
	gotB, e2 := os.ReadFile(out + "/b")
	vAssert(e1 == nil && e2 == nil && len(gotA) == 8 && len(gotB) == 4, "both files exist with their announced lengths")
	vAssert(vBytesEq(gotA, srcA) && vBytesEq(gotB, srcB), "both files equal their sources")
	vCover("C03 two files complete")
}

// ---------------------------------------------------------------------------------------------
// C15 (data stream): after a well-formed header and FileBegin, the data stream carries N arbitrary
// bytes. The receiver must end with an error or success - no panic, no goroutine left waiting for
// input that has ended, no buffer sized by a hostile FileBegin out of proportion to what arrived.
func H_C15_datastream() {
	size := []int{1, 5}[vChoice("sizeIdx", 2)]
	item := manifest.FileItem{RelPath: "f", Size: int64(size), ID: "id"}
	m := manifest.Manifest{Items: []manifest.FileItem{item}, TotalBytes: int64(size), FileCount: 1}
	key := fileKeyForItem(item)
	cs := uint32(4)
	switch vChoice("chunkSizeKind", 3) {
	case 1:
		cs = 0
		vTag("chunkSize=0")
	case 2:
		cs = vU32("hugeChunkSize")
		vAssume(cs > 1<<27)
		vTag("chunkSize=huge")
	}
	control := &vMemStream{buf: vControlBytes(m)}
	_ = writeDataStreams(control, DataStreams{Count: 1})
	// FileBegin written field by field: a hostile peer is not bound by the encoder's checks
	control.buf = append(control.buf, controlTypeFileBegin)
	control.buf = binary.BigEndian.AppendUint16(control.buf, 1)
	control.buf = append(control.buf, 'f')
	control.buf = binary.BigEndian.AppendUint64(control.buf, uint64(size))
	control.buf = binary.BigEndian.AppendUint32(control.buf, cs)
	control.buf = binary.BigEndian.AppendUint64(control.buf, key)
	control.buf = append(control.buf, HashAlgCRC32C, 0, 0, 0, 0, 0, 0, 0, 0, 0, 0, 0, 0)
	_ = writeFileEnd(control, FileEnd{StreamID: key})
	_ = writeControlEnd(control)
	n := []int{0, 1, 19, 20, 21, 24, 26}[vChoice("nIdx", 7)]
	raw := vBytes("data", n)
	if n >= 8 && vBool("rightKey") {
		binary.BigEndian.PutUint64(raw[0:8], key) // otherwise almost every frame names an unknown file
	}
	data := &vMemStream{buf: raw}
	conn := &vScriptConn{streams: []Stream{control, data}}
	mark := vAllocMark()
	_, err := RecvManifestMultiStream(vContext("ctx", false), conn, vTempDir()+"/out", Options{NoRootDir: true, Resume: vBool("resume")})
	vAssert(vAllocSince(mark) <= vAllocSlack+2*uint64(n+len(control.buf)), "allocation proportional to the bytes received")
	if err != nil {
		vCover("C15 datastream: rejected")
	} else {
		vCover("C15 datastream: accepted")
	}
}

// H_C15_frame: one frame with arbitrary index, length, CRC and up to 5 payload bytes for the announced
// file after a FileBegin whose chunk size is 4 or 0, for a file of 0, 1, 4 (deep: 5) bytes.
// H_C15_frame_stray: the file's own frames come first, so that the arbitrary frame - for the same file
// or for a key nobody announced - meets a file that is already complete. The receiver's main loop may be preempted once at a select, so
// that the frame can be processed between two control records. Beyond no panic / no hang: a frame whose
// index is not below the file's chunk count, whose length is 0 or above the chunk size, is malformed and
// must make the receiver report an error; and a receiver that reports success has written a file of the
// announced length.
func H_C15_frame()              { vC15Frame([]int{1, 0, 4}, false, 0) }
func H_C15_frame_deep()         { vC15Frame([]int{1, 5, 0, 4}, false, 2) }
func H_C15_frame_stray()        { vC15Frame([]int{1}, true, 0) }
func H_C15_frame_stray_resume() { vC15Frame([]int{1}, true, 1) }

// resumeMode: 0 off, 1 on, 2 either
func vC15Frame(sizes []int, stray bool, resumeMode int) {
	size := sizes[vChoice("sizeIdx", len(sizes))]
	item := manifest.FileItem{RelPath: "f", Size: int64(size), ID: "id"}
	m := manifest.Manifest{Items: []manifest.FileItem{item}, TotalBytes: int64(size), FileCount: 1}
	key := fileKeyForItem(item)
	cs := uint32(4)
	if !stray && vBool("chunkSizeZero") {
		cs = 0
		vTag("chunkSize=0")
	}
	control := &vMemStream{buf: vControlBytes(m)}
	_ = writeDataStreams(control, DataStreams{Count: 1})
	control.buf = append(control.buf, controlTypeFileBegin)
	control.buf = binary.BigEndian.AppendUint16(control.buf, 1)
	control.buf = append(control.buf, 'f')
	control.buf = binary.BigEndian.AppendUint64(control.buf, uint64(size))
	control.buf = binary.BigEndian.AppendUint32(control.buf, cs)
	control.buf = binary.BigEndian.AppendUint64(control.buf, key)
	control.buf = append(control.buf, HashAlgCRC32C, 0, 0, 0, 0, 0, 0, 0, 0, 0, 0, 0, 0)
	if stray {
		// natively FileEnd and End arrive a little later, so that the data stream is processed first (the
		// engine explores that order among the others)
		control.gateAt, control.gateDelay = len(control.buf), 40
	}
	_ = writeFileEnd(control, FileEnd{StreamID: key})
	_ = writeControlEnd(control)
	data := &vMemStream{}
	total := 0
	if cs > 0 {
		total = (size + 3) / 4
	}
	complete := false
	if stray {
		// the file's own frames, well-formed, ahead of the arbitrary one
		complete = true
		vTag("complete-first")
		src := vBytes("src", size)
		for i := 0; i < total; i++ {
			lo, hi := i*4, i*4+4
			if hi > size {
				hi = size
			}
			h := make([]byte, dataChunkHeaderLen)
			binary.BigEndian.PutUint64(h[0:8], key)
			binary.BigEndian.PutUint32(h[8:12], uint32(i))
			binary.BigEndian.PutUint32(h[12:16], uint32(hi-lo))
			binary.BigEndian.PutUint32(h[16:20], crc32.Checksum(src[lo:hi], crc32cTable))
			data.buf = append(append(data.buf, h...), src[lo:hi]...)
		}
	}
	fkey := key
	if stray && vBool("unknownKey") {
		fkey = vU64("frameKey")
		vAssume(fkey != key)
		vTag("unknown-key")
	}
	index, length := vU32("index"), vU32("length")
	hdr := make([]byte, dataChunkHeaderLen)
	binary.BigEndian.PutUint64(hdr[0:8], fkey)
	binary.BigEndian.PutUint32(hdr[8:12], index)
	binary.BigEndian.PutUint32(hdr[12:16], length)
	payload := vBytes("payload", []int{0, 1, 5}[vChoice("payloadLenIdx", 3)])
	// the receiver only compares the CRC field with the CRC of what it read: matching or not are the two classes
	crc := vU32("crc")
	if int64(length) <= int64(len(payload)) {
		if vBool("crcMatches") {
			crc = crc32.Checksum(payload[:length], crc32cTable)
		} else {
			vAssume(crc != crc32.Checksum(payload[:length], crc32cTable))
		}
	}
	binary.BigEndian.PutUint32(hdr[16:20], crc)
	data.buf = append(append(data.buf, hdr...), payload...)
	data.gateAt, data.gateDelay = 0, 0
	conn := &vScriptConn{streams: []Stream{control, data}}
	out := vTempDir() + "/out"
	resume := resumeMode == 1
	if resumeMode == 2 {
		resume = vBool("resume")
	}
	_, err := RecvManifestMultiStream(vContext("ctx", false), conn, out, Options{NoRootDir: true, Resume: resume})
	if err != nil {
		vCover("C15 frame: rejected")
		return
	}
	vCover("C15 frame: accepted")
	if fkey == key && !complete && total > 0 {
		// the file cannot have completed without this frame, and it was the first one the receiver saw for
		// it (not a late duplicate). A file without chunks completes by itself: the receiver may report
		// success without ever having read the frame - there only the file's length is judged.
		vAssert(index < uint32(total), "a frame whose index is not below the file's chunk count is rejected")
		vAssert(length != 0 && length <= cs, "a frame whose length is 0 or above the chunk size is rejected")
	}
	st, serr := os.Stat(out + "/f")
	vAssert(serr == nil && st.Size() == int64(size), "a receiver that reports success has written a file of the announced length")
}

// ---------------------------------------------------------------------------------------------
// C02 (sender side) / C01 (sender byte path): the real SendManifestMultiStream runs from its entry
// (goroutines as symbolic threads) against a scripted receiver: the control stream already holds the
// receiver's acknowledgements - FileDone ok, FileDone failed, or none at all (the peer went away) - and
// the caller's context may be cancelled at any observation. Asserted: a nil error implies that the file
// was acknowledged as ok; and what was put on the data stream is exactly the file, chunk by chunk.

type vSendConn struct {
	streams []*vMemStream
}

func (c *vSendConn) OpenStream(ctx context.Context) (Stream, error) {
	s := &vMemStream{duplex: true}
	if len(c.streams) == 0 {
		s.buf = vSenderAcks
		s.stall = vSenderPeerSilent
		s.onWrite = vSenderControlWatch
	} else if vSenderSlowData > 0 {
		s.slowWrite = 3
		if len(c.streams) == vSenderSlowData {
			s.slowWrite = 40
		}
	}
	c.streams = append(c.streams, s)
	return s, nil
}
func (c *vSendConn) AcceptStream(ctx context.Context) (Stream, error) {
	return nil, errors.New("scripted conn: no incoming streams")
}
func (c *vSendConn) RemoteAddr() net.Addr { return nil }
func (c *vSendConn) Close() error         { return nil }

var vSenderAcks []byte
var vSenderPeerSilent bool

func H_C02_sender()        { vC02Sender([]int{0, 4, 5}, false) }
func H_C02_sender_deep()   { vC02Sender([]int{0, 1, 4, 5, 8}, false) }
func H_C02_sender_resume() { vC02Sender([]int{5}, true) }

// H_C02_sender_cancel: the receiver never confirms and the caller cancels at some moment.
func H_C02_sender_cancel() {
	vC02OnlyUnconfirmed = true
	vC02Sender([]int{5}, vBool("resumeOn"))
}

var vC02OnlyUnconfirmed bool

func vC02Sender(sizes []int, resume bool) {
	size := sizes[vChoice("sizeIdx", len(sizes))]
	src := vBytes("src", size)
	dir := vTempDir()
	vTempFile("src/f", src)
	item := manifest.FileItem{RelPath: "f", Size: int64(size), ID: "id"}
	m := manifest.Manifest{Root: "src", Items: []manifest.FileItem{item}, TotalBytes: int64(size), FileCount: 1}
	key := fileKeyForItem(item)
	ack := 3 // a silent receiver, only with a caller that may cancel
	if !vC02OnlyUnconfirmed {
		ack = vChoice("ack", 3)
	}
	vSenderPeerSilent = ack == 3
	vTag([]string{"ack=ok", "ack=failed", "ack=none", "ack=silent"}[ack])
	acks := &vMemStream{}
	switch ack {
	case 0:
		_ = writeFileDone(acks, FileDone{StreamID: key, OK: true})
	case 1:
		reason := "x"
		if vBool("failedWithoutReason") {
			reason = ""
		}
		_ = writeFileDone(acks, FileDone{StreamID: key, OK: false, ErrMsg: reason})
	}
	if resume && vBool("reportArrives") {
		// the receiver's answer to the resume request: nothing present yet
		pre := &vMemStream{}
		_ = writeFileResumeInfo(pre, FileResumeInfo{FileID: "id", StreamID: key, TotalChunks: uint32((size + 3) / 4), LastVerifiedChunk: uint32((size + 3) / 4)})
		acks.buf = append(pre.buf, acks.buf...)
		vTag("report")
	}
	vSenderAcks = acks.buf
	conn := &vSendConn{}
	cancellable := vC02OnlyUnconfirmed // only the cancel harness (canonical schedule) has a cancellable caller
	if cancellable {
		vTag("cancel")
	}
	err := SendManifestMultiStream(vContext("ctx", cancellable), conn, dir+"/src", m, Options{ChunkSize: 4, ParallelFiles: 1, Resume: resume})
	if err != nil {
		vCover("C02 sender: reports failure")
		return
	}
	vCover("C02 sender: reports success")
	vAssert(ack == 0, "the sender reports success only if the receiver confirmed the file")
	// the byte path: header + DataStreams + FileBegin + FileEnd + End on the control stream, the file on the data stream
	vAssert(len(conn.streams) == 2, "one control and one data stream were opened")
	data := conn.streams[1].out
	total := (size + 3) / 4
	pos := 0
	seen := make([]bool, total+1)
	for pos < len(data) {
		vAssert(pos+dataChunkHeaderLen <= len(data), "the data stream holds whole frames")
		k := binary.BigEndian.Uint64(data[pos : pos+8])
		idx := int(binary.BigEndian.Uint32(data[pos+8 : pos+12]))
		ln := int(binary.BigEndian.Uint32(data[pos+12 : pos+16]))
		crc := binary.BigEndian.Uint32(data[pos+16 : pos+20])
		vAssert(k == key, "a frame carries the key of its file")
		vAssert(idx < total, "a frame's index is below the chunk count")
		want := 4
		if idx == total-1 {
			want = size - 4*(total-1)
		}
		vAssert(ln == want, "a frame has the length the geometry defines")
		vAssert(pos+dataChunkHeaderLen+ln <= len(data), "a frame's payload is complete")
		payload := data[pos+dataChunkHeaderLen : pos+dataChunkHeaderLen+ln]
		vAssert(vBytesEq(payload, src[idx*4:idx*4+ln]), "a frame's payload is the file's bytes at index x chunkSize")
		vAssert(crc == crc32.Checksum(payload, crc32cTable), "a frame's CRC is the CRC of its payload")
		vAssert(!seen[idx], "every chunk is sent once")
		seen[idx] = true
		pos += dataChunkHeaderLen + ln
	}
	for i := 0; i < total; i++ {
		vAssert(seen[i], "every chunk of the file is sent")
	}
}

// ---------------------------------------------------------------------------------------------
// C17 (whole sender, two workers): one file of two chunks, two data streams, so that both workers can
// hold a chunk of the same file at the same time. At the moment the FileEnd record goes onto the control
// stream, every chunk of the file must already be on a data stream completely - the receiver takes
// FileEnd as "nothing more will come".
func H_C17_sender_end() {
	// natively the run is repeated with either data stream as the slower one (and a few times each: which
	// worker picks up the first chunk is the Go scheduler's choice); the engine explores schedules itself
	for iter := 0; iter < vRepeat(6); iter++ {
		vResetInputs()
		vC17SenderEndOnce(1 + iter%2)
	}
}

func vC17SenderEndOnce(slow int) {
	size := []int{5, 8}[vChoice("sizeIdx", 2)]
	src := vBytes("src", size)
	dir := vTempDir()
	vTempFile("src/f", src)
	item := manifest.FileItem{RelPath: "f", Size: int64(size), ID: "id"}
	m := manifest.Manifest{Root: "src", Items: []manifest.FileItem{item}, TotalBytes: int64(size), FileCount: 1}
	key := fileKeyForItem(item)
	acks := &vMemStream{}
	_ = writeFileDone(acks, FileDone{StreamID: key, OK: true})
	vSenderAcks = acks.buf
	vSenderPeerSilent = true // after its acknowledgement the receiver keeps the control stream open
	conn := &vSendConn{}
	want := 2*dataChunkHeaderLen + size
	atEnd := -1
	vSenderControlWatch = func(p []byte) {
		if len(p) == 1 && p[0] == controlTypeFileEnd && atEnd < 0 {
			atEnd = 0
			for _, st := range conn.streams[1:] {
				atEnd += len(st.out)
			}
		}
	}
	vSenderSlowData = slow // natively one of the two data streams is slower than the other
	err := SendManifestMultiStream(vContext("ctx", false), conn, dir+"/src", m, Options{ChunkSize: 4, ParallelFiles: 2})
	vSenderControlWatch, vSenderSlowData = nil, 0
	if err != nil {
		vCover("C17 sender-end: failure")
		return
	}
	vAssert(atEnd >= 0, "a successful sender wrote FileEnd")
	vAssert(atEnd == want, "FileEnd goes out only after every chunk of the file was written to its data stream")
	vCover("C17 sender-end: success")
}

var vSenderControlWatch func(p []byte)
var vSenderSlowData int

// ---------------------------------------------------------------------------------------------
// C06 (data file gone or shortened): resume metadata of the right identity sits in the output directory
// (symbolic bitmap), but the data file it describes is missing, shortened to fewer bytes, or intact. The
// real RecvManifestMultiStream runs (goroutines as symbolic threads, one preemption at a select so that
// the report writer gets to run) against a scripted sender that asks for the resume report and then
// ends the transfer without sending a chunk. Asserted on every FileResumeInfo the receiver wrote: a
// chunk is advertised as present only if all of its bytes were in the data file when the run began -
// the sender skips exactly what is advertised (C04.plan), so anything else would be skipped data. With
// an intact file the marked chunks are advertised (resume still works).
func H_C06_datafile() {
	size := 5
	total := 2
	src := vBytes("src", size)
	item := manifest.FileItem{RelPath: "f", Size: int64(size), ID: "idf"}
	m := manifest.Manifest{Items: []manifest.FileItem{item}, TotalBytes: int64(size), FileCount: 1}
	key := fileKeyForItem(item)
	bits := vU8("bitmap")
	vAssume(bits>>uint(total) == 0)
	out := vTempDir() + "/out"
	have := -1 // bytes of the data file present before the run; -1: no file
	switch vChoice("dataFile", 3) {
	case 0:
		vTag("missing")
	case 1:
		have = []int{0, 3, 4}[vChoice("keptBytesIdx", 3)] // empty, inside chunk 0, at the chunk boundary
		vTag("shortened")
	default:
		have = size
		vTag("intact")
	}
	if have >= 0 {
		old := vBytes("old", size)
		for i := 0; i < total; i++ {
			if bits&(1<<uint(i)) != 0 {
				lo, hi := i*4, i*4+4
				if hi > size {
					hi = size
				}
				copy(old[lo:hi], src[lo:hi]) // what was marked was written (C05); bytes beyond `have` are lost
			}
		}
		vTempFile("out/f", old[:have])
	} else {
		vTempFile("out/other", []byte{1}) // the output directory itself exists
	}
	sc := &Sidecar{Path: SidecarPath(out, "", sidecarIdentifier(item)), FileID: item.ID, FileSize: int64(size), ChunkSize: 4, TotalChunks: uint32(total),
		bitmap: &Bitmap{bits: total, data: []byte{bits}}, dirty: true}
	vAssume(sc.Flush() == nil)

	control := &vMemStream{buf: vControlBytes(m)}
	_ = writeDataStreams(control, DataStreams{Count: 1})
	_ = writeFileBegin(control, FileBegin{RelPath: "f", FileSize: uint64(size), ChunkSize: 4, StreamID: key, HashAlg: HashAlgCRC32C})
	_ = writeResumeRequest(control, ResumeRequest{FileID: item.ID, StreamID: key})
	data := &vMemStream{} // no chunk arrives in this run: every report describes what was found on disk
	_ = writeControlEnd(control)
	conn := &vScriptConn{streams: []Stream{control, data}}
	metaAtCreate := false
	if !vSymbolic() && have < size {
		// native replay of the kill-window obligation (the engine judges it on the effect log): when the data
		// file is about to be re-created at full size, the metadata of the lost file must be gone already
		vBeforeCreate = func(path string) {
			if _, err := os.Stat(sc.Path); err == nil {
				metaAtCreate = true
			}
		}
		defer func() { vBeforeCreate = func(string) {} }()
	}
	_, err := RecvManifestMultiStream(vContext("ctx", false), conn, out, Options{NoRootDir: true, Resume: true, ResumeVerify: "last"})
	vAssert(!metaAtCreate, "metadata of a lost data file is removed before the data file is re-created at full size")
	rep := &vMemStream{buf: control.out}
	for {
		typ, msg, rerr := readControlMessage(rep)
		if rerr != nil {
			break
		}
		if typ != controlTypeFileResumeInfo {
			continue
		}
		ri := msg.(FileResumeInfo)
		vCover("C06 datafile: report seen")
		adv := byte(0)
		if len(ri.Bitmap) > 0 {
			adv = ri.Bitmap[0]
		}
		for i := 0; i < total; i++ {
			hi := i*4 + 4
			if hi > size {
				hi = size
			}
			if adv&(1<<uint(i)) != 0 {
				vAssert(hi <= have, "a chunk is advertised as present only if its bytes were in the data file")
			}
		}
		if have == size {
			vAssert(adv == bits, "with the data file intact the marked chunks are advertised")
		}
	}
	vAssert(err != nil, "a transfer that ends with the file incomplete is reported as failed")
}

// ---------------------------------------------------------------------------------------------
// C15 (record sequences): after a well-formed header the control stream carries k well-formed records
// in an arbitrary order - DataStreams (count 1 or 0), FileBegin, FileEnd and ResumeRequest for the
// announced file or for a key nobody announced, End - and then ends; the data stream is empty. Every
// record is legal by itself, the sequence need not be. The real receiver (goroutines as symbolic
// threads) must come back - with an error or, for a complete sequence, success: no panic and nobody
// left waiting for input that has ended.
func H_C15_records()      { vC15Records(3) }
func H_C15_records_deep() { vC15Records(4) }

func vC15Records(k int) {
	item := manifest.FileItem{RelPath: "f", Size: 0, ID: "id"}
	m := manifest.Manifest{Items: []manifest.FileItem{item}, TotalBytes: 0, FileCount: 1}
	key := fileKeyForItem(item)
	control := &vMemStream{buf: vControlBytes(m)}
	n := 1 + vChoice("recordsMinus1", k)
	for i := 0; i < n; i++ {
		switch vChoice("record", 8) {
		case 0:
			_ = writeDataStreams(control, DataStreams{Count: 1})
		case 1:
			_ = writeDataStreams(control, DataStreams{Count: 0})
		case 2:
			_ = writeFileBegin(control, FileBegin{RelPath: "f", FileSize: 0, ChunkSize: 4, StreamID: key, HashAlg: HashAlgCRC32C})
		case 3:
			_ = writeFileEnd(control, FileEnd{StreamID: key})
		case 4:
			_ = writeFileEnd(control, FileEnd{StreamID: key + 1})
		case 5:
			_ = writeResumeRequest(control, ResumeRequest{FileID: "id", StreamID: key})
		case 6:
			_ = writeResumeRequest(control, ResumeRequest{FileID: "id", StreamID: key + 1})
		default:
			_ = writeControlEnd(control)
		}
	}
	conn := &vScriptConn{streams: []Stream{control, &vMemStream{}}}
	_, err := RecvManifestMultiStream(vContext("ctx", false), conn, vTempDir()+"/out", Options{NoRootDir: true, Resume: vBool("resume")})
	if err != nil {
		vCover("C15 records: rejected")
	} else {
		vCover("C15 records: accepted")
	}
}

// ---------------------------------------------------------------------------------------------
// C15 (sender side): what the receiver sends back on the control stream is N arbitrary bytes, then the
// stream ends. The real sender (goroutines as symbolic threads) must come back: no panic, nobody left
// waiting; and it reports success only if those bytes really were an acknowledgement of its file.
func H_C15_sender_control()        { vC15SenderControl(false) }
func H_C15_sender_control_silent() { vC15SenderControl(true) }

// silent: after the bytes the peer keeps the stream open and says nothing more (waiting is then correct
// and not judged; this variant is there for the success oracle, the other one for "nobody left waiting")
func vC15SenderControl(silent bool) {
	size := 5
	src := vBytes("src", size)
	dir := vTempDir()
	vTempFile("src/f", src)
	item := manifest.FileItem{RelPath: "f", Size: int64(size), ID: "id"}
	m := manifest.Manifest{Root: "src", Items: []manifest.FileItem{item}, TotalBytes: int64(size), FileCount: 1}
	key := fileKeyForItem(item)
	n := []int{0, 1, 11, 12, 14}[vChoice("nIdx", 5)]
	raw := vBytes("acks", n)
	if n >= 9 && vBool("rightKey") {
		binary.BigEndian.PutUint64(raw[1:9], key) // otherwise almost every record names an unknown file
	}
	vSenderAcks = raw
	vSenderPeerSilent = silent
	conn := &vSendConn{}
	err := SendManifestMultiStream(vContext("ctx", false), conn, dir+"/src", m, Options{ChunkSize: 4, ParallelFiles: 1})
	if err != nil {
		vCover("C15 sender-control: rejected")
		return
	}
	vCover("C15 sender-control: accepted")
	confirmed := false
	rep := &vMemStream{buf: raw}
	for {
		typ, msg, rerr := readControlMessage(rep)
		if rerr != nil {
			break
		}
		if typ == controlTypeFileDone {
			if fd := msg.(FileDone); fd.StreamID == key && fd.OK {
				confirmed = true
			}
		}
	}
	vAssert(confirmed, "the sender reports success only if the bytes it received confirm its file")
}

// ---------------------------------------------------------------------------------------------
// C02 (obstructed output path): a healthy sender, but the place where the file has to go is taken - the
// path is a directory, or its parent is a regular file. The receiver must report failure (and come back);
// it must not report success while the file could not be written.
func H_C02_obstructed() {
	size := 5
	src := vBytes("src", size)
	rel := "d/f"
	item := manifest.FileItem{RelPath: rel, Size: int64(size), ID: "id"}
	m := manifest.Manifest{Items: []manifest.FileItem{item}, TotalBytes: int64(size), FileCount: 1}
	key := fileKeyForItem(item)
	out := vTempDir() + "/out"
	if vBool("parentIsFile") {
		vTempFile("out/d", []byte{1})
		vTag("parent-is-file")
	} else {
		vTempFile("out/d/f/x", []byte{1})
		vTag("path-is-directory")
	}
	control := &vMemStream{buf: vControlBytes(m)}
	_ = writeDataStreams(control, DataStreams{Count: 1})
	_ = writeFileBegin(control, FileBegin{RelPath: rel, FileSize: uint64(size), ChunkSize: 4, StreamID: key, HashAlg: HashAlgCRC32C})
	data := &vMemStream{}
	for i := 0; i < 2; i++ {
		lo, hi := i*4, i*4+4
		if hi > size {
			hi = size
		}
		hdr := make([]byte, dataChunkHeaderLen)
		binary.BigEndian.PutUint64(hdr[0:8], key)
		binary.BigEndian.PutUint32(hdr[8:12], uint32(i))
		binary.BigEndian.PutUint32(hdr[12:16], uint32(hi-lo))
		binary.BigEndian.PutUint32(hdr[16:20], crc32.Checksum(src[lo:hi], crc32cTable))
		data.buf = append(append(data.buf, hdr...), src[lo:hi]...)
	}
	_ = writeFileEnd(control, FileEnd{StreamID: key})
	_ = writeControlEnd(control)
	conn := &vScriptConn{streams: []Stream{control, data}}
	_, err := RecvManifestMultiStream(vContext("ctx", false), conn, out, Options{NoRootDir: true, Resume: vBool("resume")})
	vAssert(err != nil, "a receiver that cannot write the file reports failure")
	vCover("C02 obstructed: failure reported")
}

// ---------------------------------------------------------------------------------------------
// C02 (source changed after the scan): the manifest announces 5 bytes, the file on disk has since been
// shortened (to 0..4 bytes) or removed. Whatever the receiver answers - here even an acknowledgement -
// the sender cannot have sent the file and must not report success.
func H_C02_sender_source() {
	size := 5
	dir := vTempDir()
	if vBool("sourceRemoved") {
		vTempFile("src/other", []byte{1})
		vTag("source-removed")
	} else {
		have := vChoice("sourceBytes", size)
		vTempFile("src/f", vBytes("src", have))
		vTag("source-shortened")
	}
	item := manifest.FileItem{RelPath: "f", Size: int64(size), ID: "id"}
	m := manifest.Manifest{Root: "src", Items: []manifest.FileItem{item}, TotalBytes: int64(size), FileCount: 1}
	key := fileKeyForItem(item)
	acks := &vMemStream{}
	if vBool("receiverConfirmsAnyway") {
		_ = writeFileDone(acks, FileDone{StreamID: key, OK: true})
	}
	vSenderAcks = acks.buf
	vSenderPeerSilent = false
	conn := &vSendConn{}
	err := SendManifestMultiStream(vContext("ctx", false), conn, dir+"/src", m, Options{ChunkSize: 4, ParallelFiles: 1})
	vAssert(err != nil, "a sender whose source file shrank or vanished after the scan reports failure")
	vCover("C02 sender-source: failure reported")
}

// ---------------------------------------------------------------------------------------------
// C17 (file level, whole sender): three files (5, 0 and 4 bytes) on two file slots / data streams. The
// receiver's acknowledgements for all three are already waiting on the control stream. Asserted on what
// the sender wrote: every file is begun exactly once and ended exactly once, its FileBegin precedes its
// FileEnd, and every chunk of every file is on a data stream exactly once.
func H_C17_files() {
	dir := vTempDir()
	sizes := []int{5, 0, 4}
	names := []string{"a", "b", "c"}
	var items []manifest.FileItem
	srcs := make([][]byte, 3)
	total := int64(0)
	for i := range names {
		srcs[i] = vBytes("src"+names[i], sizes[i])
		vTempFile("src/"+names[i], srcs[i])
		items = append(items, manifest.FileItem{RelPath: names[i], Size: int64(sizes[i]), ID: "id" + names[i]})
		total += int64(sizes[i])
	}
	m := manifest.Manifest{Root: "src", Items: items, TotalBytes: total, FileCount: 3}
	acks := &vMemStream{}
	keys := make([]uint64, 3)
	for i := range items {
		keys[i] = fileKeyForItem(items[i])
		_ = writeFileDone(acks, FileDone{StreamID: keys[i], OK: true})
	}
	vSenderAcks = acks.buf
	vSenderPeerSilent = true
	conn := &vSendConn{}
	err := SendManifestMultiStream(vContext("ctx", false), conn, dir+"/src", m, Options{ChunkSize: 4, ParallelFiles: 2})
	if err != nil {
		vCover("C17 files: failure")
		return
	}
	begun, ended := make([]int, 3), make([]int, 3)
	rep := &vMemStream{buf: conn.streams[0].out}
	_, herr := readControlHeader(rep)
	vAssert(herr == nil, "the control stream starts with the header")
	for {
		typ, msg, rerr := readControlMessage(rep)
		if rerr != nil {
			break
		}
		for i := range keys {
			switch typ {
			case controlTypeFileBegin:
				if msg.(FileBegin).StreamID == keys[i] {
					vAssert(ended[i] == 0, "a file is begun before it is ended")
					begun[i]++
				}
			case controlTypeFileEnd:
				if msg.(FileEnd).StreamID == keys[i] {
					vAssert(begun[i] == 1, "a file is ended after it was begun")
					ended[i]++
				}
			}
		}
	}
	for i := range keys {
		vAssert(begun[i] == 1, "every file of the manifest is begun exactly once")
		vAssert(ended[i] == 1, "every file is ended exactly once")
	}
	seen := make([][]bool, 3)
	for i := range seen {
		seen[i] = make([]bool, (sizes[i]+3)/4)
	}
	for _, st := range conn.streams[1:] {
		data := st.out
		pos := 0
		for pos < len(data) {
			vAssert(pos+dataChunkHeaderLen <= len(data), "the data streams hold whole frames")
			k := binary.BigEndian.Uint64(data[pos : pos+8])
			idx := int(binary.BigEndian.Uint32(data[pos+8 : pos+12]))
			ln := int(binary.BigEndian.Uint32(data[pos+12 : pos+16]))
			fi := -1
			for i := range keys {
				if keys[i] == k {
					fi = i
				}
			}
			vAssert(fi >= 0 && idx < len(seen[fi]), "a frame names a file of the manifest and a chunk of it")
			vAssert(!seen[fi][idx], "every chunk is sent once")
			seen[fi][idx] = true
			vAssert(pos+dataChunkHeaderLen+ln <= len(data), "a frame's payload is complete")
			vAssert(vBytesEq(data[pos+dataChunkHeaderLen:pos+dataChunkHeaderLen+ln], srcs[fi][idx*4:idx*4+ln]), "a frame's payload is the file's bytes at index x chunkSize")
			pos += dataChunkHeaderLen + ln
		}
	}
	for i := range seen {
		for _, s := range seen[i] {
			vAssert(s, "every chunk of every file is sent")
		}
	}
	vCover("C17 files: success")
}

// ---------------------------------------------------------------------------------------------
// C03 (wake-up between lookup and wait): a healthy scripted sender, one file of one chunk. The stream
// reader may see the frame before the main loop has handled FileBegin; it then looks the file up, does
// not find it and goes to wait for its announcement. Every schedule with one preemption before a lock
// operation is explored: the receiver must always come back with success.
var vC03WakeGate int

func H_C03_wake() {
	size := 1
	src := vBytes("src", size)
	item := manifest.FileItem{RelPath: "f", Size: int64(size), ID: "id"}
	m := manifest.Manifest{Items: []manifest.FileItem{item}, TotalBytes: int64(size), FileCount: 1}
	key := fileKeyForItem(item)
	control := &vMemStream{buf: vControlBytes(m)}
	_ = writeDataStreams(control, DataStreams{Count: 1})
	vC03WakeGate = len(control.buf)
	_ = writeFileBegin(control, FileBegin{RelPath: "f", FileSize: uint64(size), ChunkSize: 4, StreamID: key, HashAlg: HashAlgCRC32C})
	hdr := make([]byte, dataChunkHeaderLen)
	binary.BigEndian.PutUint64(hdr[0:8], key)
	binary.BigEndian.PutUint32(hdr[8:12], 0)
	binary.BigEndian.PutUint32(hdr[12:16], uint32(size))
	binary.BigEndian.PutUint32(hdr[16:20], crc32.Checksum(src, crc32cTable))
	data := &vMemStream{buf: append(hdr, src...)}
	// the sender sends FileEnd and End only after its frames; a stalled control stream stands for "the
	// sender is still waiting for the acknowledgement"
	control.stall = true
	conn := &vScriptConn{streams: []Stream{control, data}}
	out := vTempDir() + "/out"
	done := false
	opts := Options{NoRootDir: true, FileDoneFn: func(rel string, ok bool) { done = done || ok }}
	ctx := vContext("ctx", true)
	if !vSymbolic() {
		// native replay: FileBegin arrives 30 ms after the frame, the reader pauses 100 ms between its lookup
		// and its registration as a waiter (hook inserted by the replay overlay), the caller gives up after 500 ms
		control.gateAt, control.gateDelay = vC03WakeGate, 30
		vRecvYield = func() { time.Sleep(100 * time.Millisecond) }
		defer func() { vRecvYield = func() {} }()
		c, cancel := context.WithCancel(context.Background())
		time.AfterFunc(500*time.Millisecond, cancel)
		ctx = c
	}
	_, err := RecvManifestMultiStream(ctx, conn, out, opts)
	// the caller cancels only when everybody waits (see job): by then the file must have been confirmed
	vAssert(done, "the file is confirmed to the sender before the receiver goes idle")
	_ = err
	vCover("C03 wake: file confirmed")
}

// ---------------------------------------------------------------------------------------------
// C02 (two files, the second never arrives): the scripted sender announces files a and b, delivers a
// completely (frame and FileEnd) and then goes away - End, a clean end of the control stream, or nothing
// more - without a single byte of b. Whatever the schedule (including one preemption before a lock
// operation, e.g. while a file is being finalised by the stream reader and the control loop at once),
// the receiver must not report success, and a is confirmed at most once.
func H_C02_twofiles() {
	srcA := vBytes("srcA", 1)
	a := manifest.FileItem{RelPath: "a", Size: 1, ID: "ida"}
	b := manifest.FileItem{RelPath: "b", Size: 1, ID: "idb"}
	m := manifest.Manifest{Items: []manifest.FileItem{a, b}, TotalBytes: 2, FileCount: 2}
	ka, kb := fileKeyForItem(a), fileKeyForItem(b)
	control := &vMemStream{buf: vControlBytes(m)}
	_ = writeDataStreams(control, DataStreams{Count: 1})
	_ = writeFileBegin(control, FileBegin{RelPath: "a", FileSize: 1, ChunkSize: 4, StreamID: ka, HashAlg: HashAlgCRC32C})
	_ = writeFileBegin(control, FileBegin{RelPath: "b", FileSize: 1, ChunkSize: 4, StreamID: kb, HashAlg: HashAlgCRC32C})
	gate := len(control.buf)
	_ = writeFileEnd(control, FileEnd{StreamID: ka})
	switch vChoice("controlTail", 3) {
	case 0:
		_ = writeControlEnd(control)
		vTag("control=End")
	case 1:
		vTag("control=eof")
	default:
		control.stall = true
		vTag("control=silent")
	}
	hdr := make([]byte, dataChunkHeaderLen)
	binary.BigEndian.PutUint64(hdr[0:8], ka)
	binary.BigEndian.PutUint32(hdr[8:12], 0)
	binary.BigEndian.PutUint32(hdr[12:16], 1)
	binary.BigEndian.PutUint32(hdr[16:20], crc32.Checksum(srcA, crc32cTable))
	data := &vMemStream{buf: append(hdr, srcA...)}
	conn := &vScriptConn{streams: []Stream{control, data}}
	out := vTempDir() + "/out"
	okA, okB := 0, 0
	opts := Options{NoRootDir: true, FileDoneFn: func(rel string, ok bool) {
		if ok && rel == "a" {
			okA++
		}
		if ok && rel == "b" {
			okB++
		}
	}}
	ctx := vContext("ctx", true)
	if !vSymbolic() {
		// native replay: a's FileEnd arrives 30 ms after its frame, finalising a file takes 100 ms (hook
		// inserted by the replay overlay), the caller gives up after 800 ms
		control.gateAt, control.gateDelay = gate, 30
		vFinalizeYield = func() { time.Sleep(100 * time.Millisecond) }
		defer func() { vFinalizeYield = func() {} }()
		c, cancel := context.WithCancel(context.Background())
		time.AfterFunc(800*time.Millisecond, cancel)
		ctx = c
	}
	_, err := RecvManifestMultiStream(ctx, conn, out, opts)
	vAssert(err != nil, "a receiver that never got the second file does not report success")
	vAssert(okA <= 1, "a file is confirmed at most once")
	vAssert(okB == 0, "a file that never arrived is not confirmed")
	vCover("C02 two files: failure reported")
}
