package transfer

import (
	"encoding/binary"
	"encoding/json"
	"hash/crc32"
	"os"

	"github.com/sheerbytes/sheerbytes/pkg/manifest"
)

// ---------------------------------------------------------------------------------------------
// C15: decoders on arbitrary bytes. A Go panic or a blocked read ends the path as a violation in
// the engine; the allocation oracle is evaluated by the engine at every make() sized by input and
// natively through vAllocSince.

const vAllocSlack = 64 << 20

func vC15Lens(max int) int { return vChoice("n", max+1) }

func H_C15_control() {
	n := vC15Lens(24)
	in := vBytes("in", n)
	s := &vMemStream{buf: in}
	mark := vAllocMark()
	typ, msg, err := readControlMessage(s)
	vAssert(vAllocSince(mark) <= vAllocSlack+2*uint64(n), "allocation proportional to the bytes received")
	vAssert(s.rpos <= n, "reader stays inside the input")
	if err == nil {
		vCover("C15 control: accepted")
		switch typ {
		case controlTypeFileBegin:
			fb, ok := msg.(FileBegin)
			vAssert(ok, "accepted FileBegin has its type")
			vAssert(len(fb.RelPath) <= maxRelPathLength, "accepted path within the protocol limit")
		case controlTypeEnd:
			vAssert(msg == nil, "End has no payload")
		}
	} else {
		vCover("C15 control: rejected")
	}
}

func H_C15_header() {
	n := vC15Lens(16)
	in := vBytes("in", n)
	s := &vMemStream{buf: in}
	mark := vAllocMark()
	_, err := readControlHeader(s)
	vAssert(vAllocSince(mark) <= vAllocSlack+2*uint64(n), "allocation proportional to the bytes received")
	if err == nil {
		vCover("C15 header: accepted")
		vAssert(n >= 8, "accepted header has magic and length")
		vAssert(string(in[:4]) == controlMagic, "accepted header starts with the magic")
	} else {
		vCover("C15 header: rejected")
	}
}

func H_C15_relpath() {
	n := vC15Lens(8)
	in := vBytes("in", n)
	s := &vMemStream{buf: in}
	mark := vAllocMark()
	p, err := readRelPath(s)
	vAssert(vAllocSince(mark) <= vAllocSlack+2*uint64(n), "allocation proportional to the bytes received")
	if err == nil {
		vCover("C15 relpath: accepted")
		vAssert(len(p)+2 <= n, "accepted path was fully present")
		vAssert(validateRelPath(p) == nil, "accepted path is valid")
	}
}

func H_C15_recvmanifest() {
	n := vC15Lens(16)
	in := vBytes("in", n)
	s := &vMemStream{buf: in}
	mark := vAllocMark()
	_, err := RecvManifest(vContext("ctx", false), s, vTempDir(), nil)
	vAssert(vAllocSince(mark) <= vAllocSlack+2*uint64(n), "allocation proportional to the bytes received")
	if err != nil {
		vCover("C15 recvmanifest: rejected")
	}
}

// H_C15_recvmanifest_body: a well-formed header announcing 0 or 1 items (built with the real JSON
// encoder, so that a model replays natively), followed by arbitrary record bytes.
func H_C15_recvmanifest_body() {
	var m manifest.Manifest
	m.Root = "r"
	if vBool("oneItem") {
		m.Items = []manifest.FileItem{{RelPath: "a", IsDir: vBool("isDir"), Size: int64(vU8("size"))}}
	}
	jb, err := json.Marshal(m)
	vAssume(err == nil)
	n := vC15Lens(16)
	rest := vBytes("rest", n)
	var in []byte
	in = append(in, manifestMagicBytes...)
	in = binary.BigEndian.AppendUint32(in, uint32(len(jb)))
	in = append(in, jb...)
	in = append(in, rest...)
	s := &vMemStream{buf: in}
	mark := vAllocMark()
	_, rerr := RecvManifest(vContext("ctx", false), s, vTempDir(), nil)
	vAssert(vAllocSince(mark) <= vAllocSlack+2*uint64(len(in)), "allocation proportional to the bytes received")
	if rerr != nil {
		vCover("C15 recvmanifest body: rejected")
	} else {
		vCover("C15 recvmanifest body: accepted")
	}
}

func H_C15_recvfile() {
	n := vC15Lens(20)
	in := vBytes("in", n)
	s := &vMemStream{buf: in}
	mark := vAllocMark()
	_, err := RecvFile(vContext("ctx", false), s, vTempDir())
	vAssert(vAllocSince(mark) <= vAllocSlack+2*uint64(n), "allocation proportional to the bytes received")
	if err != nil {
		vCover("C15 recvfile: rejected")
	} else {
		vCover("C15 recvfile: accepted")
	}
}

// ---------------------------------------------------------------------------------------------
// C06: sidecar loader

func vBE32(b []byte) uint32 { return binary.BigEndian.Uint32(b) }

// H_C06_arbitrary: LoadSidecar on arbitrary bytes never panics; acceptance implies magic, version,
// length consistency and a matching checksum, and the returned fields are the ones on disk.
func H_C06_arbitrary() {
	n := vChoice("n", 41)
	data := vBytes("sc", n)
	path := vTempFile("a.sbxmap", data)
	sc, err := LoadSidecar(path)
	if err != nil {
		vCover("C06 arbitrary: rejected")
		return
	}
	vCover("C06 arbitrary: accepted")
	vAssert(n >= 32, "accepted sidecar has all fixed fields")
	vAssert(string(data[:4]) == sidecarMagic, "accepted sidecar has the magic")
	vAssert(binary.BigEndian.Uint16(data[4:6]) == sidecarVersion, "accepted sidecar has the version")
	vAssert(sc.ChunkSize == vBE32(data[6:10]), "ChunkSize is the stored one")
	vAssert(uint64(sc.FileSize) == binary.BigEndian.Uint64(data[10:18]), "FileSize is the stored one")
	vAssert(sc.TotalChunks == vBE32(data[18:22]), "TotalChunks is the stored one")
	idLen := len(sc.FileID) // concrete on every path (the loader's own allocation was case-split)
	vAssert(int(binary.BigEndian.Uint16(data[22:24])) == idLen, "FileID has the stored length")
	vAssert(24+idLen+4 <= n, "bitmap length field present")
	bmLen := len(sc.bitmap.data)
	vAssert(int(vBE32(data[24+idLen:28+idLen])) == bmLen, "bitmap has the stored length")
	vAssert(bmLen == (int(sc.TotalChunks)+7)/8, "bitmap length matches the chunk count")
	vAssert(28+idLen+bmLen+4 <= n, "checksum field present")
	vAssert(sc.FileID == string(data[24:24+idLen]), "FileID is the stored one")
	vAssert(vBytesEq(sc.bitmap.data, data[28+idLen:28+idLen+bmLen]), "bitmap is the stored one")
	stored := vBE32(data[28+idLen+bmLen : 32+idLen+bmLen])
	vAssert(crc32.Checksum(data[:n-4], crc32cTable) == stored, "stored checksum matches the content")
	vAssert(sc.bitmap.LenBits() == int(sc.TotalChunks), "bitmap sized for the chunk count")
}

var vFewChunks = []int{0, 1, 2, 8}

func vMakeSidecarBytes(tag string, maxChunks int) ([]byte, *Sidecar) {
	idl, tc := 0, 0
	if maxChunks < 0 { // small menu (two files at once)
		idl = 2
		tc = vFewChunks[1+vChoice("chunks"+tag, 3)]
	} else {
		idl = vChoice("idLen"+tag, 5)
		tc = vChoice("chunks"+tag, maxChunks+1)
	}
	raw := vBytes("bits"+tag, (tc+7)/8)
	if tc%8 != 0 {
		vAssume(raw[len(raw)-1]>>uint(tc%8) == 0) // bits beyond the chunk count are never set by Bitmap.Set
	}
	bm := &Bitmap{bits: tc, data: raw}
	dir := vTempDir()
	sc := &Sidecar{Path: dir + "/gen" + tag + ".sbxmap", FileID: vString("id"+tag, idl), FileSize: vI64("size" + tag), ChunkSize: vU32("cs" + tag),
		TotalChunks: uint32(tc), bitmap: bm, dirty: true}
	vAssume(sc.Flush() == nil)
	data, err := os.ReadFile(sc.Path)
	vAssume(err == nil)
	return data, sc
}

// H_C06_roundtrip: what Flush writes, LoadSidecar accepts and returns unchanged (C05.d codec part).
func H_C06_roundtrip() {
	data, sc := vMakeSidecarBytes("", 16)
	p := vTempFile("copy.sbxmap", data)
	got, err := LoadSidecar(p)
	vAssert(err == nil, "flushed sidecar loads")
	vAssert(got.FileID == sc.FileID, "FileID round-trips")
	vAssert(got.FileSize == sc.FileSize, "FileSize round-trips")
	vAssert(got.ChunkSize == sc.ChunkSize, "ChunkSize round-trips")
	vAssert(got.TotalChunks == sc.TotalChunks, "TotalChunks round-trips")
	vAssert(vBytesEq(got.bitmap.Marshal(), sc.bitmap.Marshal()), "bitmap round-trips")
	vCover("C06 roundtrip")
}

// H_C06_damage: every single-bit flip and every truncation of a valid sidecar is rejected.
// Assumptions A-CRC1/A-CRC2 (see body).
func H_C06_damage() {
	data, _ := vMakeSidecarBytes("", 8)
	n := len(data)
	var d2 []byte
	if vChoice("mode", 2) == 0 {
		pos := vChoice("pos", n)
		bit := vChoice("bit", 8)
		d2 = make([]byte, n)
		copy(d2, data)
		d2[pos] ^= 1 << uint(bit)
		if pos < n-4 {
			// A-CRC1/A-CRC2: the CRC-32C of the damaged body differs from the original CRC (true of every CRC for a
			// single-bit flip) and from every other 4-byte window of the file (the window a loader mis-led by a damaged
			// length field would compare with; a 2^-32 coincidence per window is outside the claim).
			sum := crc32.Checksum(d2[:n-4], crc32cTable)
			for k := 0; k+4 <= n; k++ {
				vAssume(sum != vBE32(d2[k:k+4]))
			}
		}
		vCover("C06 damage: bit flip")
	} else {
		cut := vChoice("cut", n)
		d2 = data[:cut]
		vCover("C06 damage: truncation")
	}
	p := vTempFile("damaged.sbxmap", d2)
	_, err := LoadSidecar(p)
	vAssert(err != nil, "damaged sidecar is rejected")
}

// H_C06_identity: whatever valid sidecars sit at the primary and fallback paths, the sidecar
// returned for (id, size, chunk size) has that identity, the chunk count the geometry defines, and
// is empty unless a file with exactly that identity was loaded; mismatching files are removed.
func H_C06_identity() {
	dataP, scP := vMakeSidecarBytes("P", -1)
	dataF, scF := vMakeSidecarBytes("F", -1)
	dir := vTempDir()
	primary, fallback := dir+"/p/x.sbxmap", dir+"/f/x.sbxmap"
	havePrimary, haveFallback := vBool("havePrimary"), vBool("haveFallback")
	if havePrimary {
		vTempFile("p/x.sbxmap", dataP)
	}
	if haveFallback {
		vTempFile("f/x.sbxmap", dataF)
	}
	id := vString("id", 2)
	size := vI64("size")
	cs := vU32("cs")
	vAssume(size >= 0)
	vAssume(size <= 10<<40)
	vAssume(cs >= 1)
	vAssume((size+int64(cs)-1)/int64(cs) <= 64) // keeps the created bitmap within the modelled allocation bound
	sc, err := LoadOrCreateSidecarWithFallback(primary, fallback, id, size, cs)
	vAssume(err == nil)
	vCover("C06 identity: returned")
	vAssert(sc.FileID == id, "returned sidecar has the requested id")
	vAssert(sc.FileSize == size, "returned sidecar has the requested size")
	vAssert(sc.ChunkSize == cs, "returned sidecar has the requested chunk size")
	vAssert(sc.TotalChunks == chunkTotal(size, cs), "returned sidecar has the chunk count of the geometry")
	matchP := vAnd(vAnd(havePrimary, scP.FileID == id), vAnd(scP.FileSize == size, scP.ChunkSize == cs))
	matchF := vAnd(vAnd(haveFallback, scF.FileID == id), vAnd(scF.FileSize == size, scF.ChunkSize == cs))
	vAssert(vOr(vOr(matchP, matchF), vBytesEq(sc.bitmap.data, make([]byte, len(sc.bitmap.data)))), "no matching file: nothing is marked complete")
}
