package transfer

import (
	"io"
	"time"

	"github.com/sheerbytes/sheerbytes/pkg/manifest"
)

// Source harnesses (CBMC idiom): arbitrary inputs from v* functions, assumptions stating the bound,
// the property as plain assertions. Executed symbolically by symgo; compiled natively for replay.

// ---------------------------------------------------------------------------------------------
// C19: chunk geometry

// H_C19_tiling: chunkTotal / chunkSizeForIndex tile [0, fileSize) exactly, for every file size up to
// 10 TiB, every chunk size 1..2^32-1 whose chunk count fits 32 bits, every chunk index below the count.
func H_C19_tiling() {
	fs := vI64("fs")
	cs := vU32("cs")
	idx := vU32("idx")
	vAssume(fs >= 0)
	vAssume(fs <= 10<<40)
	vAssume(cs >= 1)
	q := (fs + int64(cs) - 1) / int64(cs) // mathematical ceil: no overflow, fs + cs < 2^45
	vAssume(q <= 0xFFFFFFFF)
	total := chunkTotal(fs, cs)
	vAssert(int64(total) == q, "chunkTotal equals ceil(fileSize/chunkSize)")
	vAssert((total == 0) == (fs == 0), "zero chunks iff empty file")
	vAssume(idx < total)
	vCover("C19 tiling reached")
	ln := chunkSizeForIndex(fs, cs, idx)
	off := int64(idx) * int64(cs)
	vAssert(off >= 0, "offset does not wrap")
	vAssert(ln > 0, "chunk non-empty")
	vAssert(ln <= cs, "chunk at most chunkSize")
	vAssert(off+int64(ln) <= fs, "chunk inside file")
	if idx+1 < total {
		vAssert(ln == cs, "inner chunk is full")
		// next chunk starts where this one ends
		vAssert(int64(idx+1)*int64(cs) == off+int64(ln), "contiguous")
	} else {
		vAssert(off+int64(ln) == fs, "last chunk ends at file size")
	}
}

// H_C19_sidecar_count: the resume metadata agrees with the sender/receiver count for every
// (size, chunk size) whose bitmap fits the modelled allocation bound.
func H_C19_sidecar_count() {
	fs := vI64("fs")
	cs := vU32("cs")
	vAssume(fs >= 0)
	vAssume(fs <= 10<<40)
	vAssume(cs >= 1)
	q := (fs + int64(cs) - 1) / int64(cs)
	vAssume(q <= 0xFFFFFFFF)
	dir := vTempDir()
	sc, err := CreateSidecar(dir+"/x.sbxmap", "id", fs, cs)
	vAssume(err == nil)
	vCover("C19 sidecar created")
	vAssert(sc.TotalChunks == chunkTotal(fs, cs), "sidecar chunk count equals chunkTotal")
}

// ---------------------------------------------------------------------------------------------
// in-memory stream used by the codec harnesses (real Go code, interpreted like everything else)

type vMemStream struct {
	buf     []byte
	rpos    int
	maxRead int // 0 = unlimited; otherwise every Read returns at most maxRead bytes (short reads)
	closed  bool
	duplex  bool // what the code under test writes goes to out instead of being read back
	out     []byte
	// native pacing only (ignored by the engine, which explores every schedule anyway): bytes from
	// offset gateAt on become readable gateDelay milliseconds after the first read reached that offset
	gateAt    int
	gateDelay int
	gateDone  bool
	stall     bool           // at the end of buf, Read blocks forever instead of reporting EOF
	onWrite   func(p []byte) // observer of what the code under test writes (before it is stored)
	slowWrite int            // native pacing only: every Write takes this many milliseconds (a slower stream)
}

func (m *vMemStream) Read(p []byte) (int, error) {
	if m.rpos >= len(m.buf) {
		if m.stall {
			<-make(chan struct{}) // a silent peer: the stream stays open and nothing more arrives
		}
		return 0, io.EOF
	}
	avail := m.buf[m.rpos:]
	if m.gateDelay > 0 && !m.gateDone && !vSymbolic() {
		if m.rpos >= m.gateAt {
			time.Sleep(time.Duration(m.gateDelay) * time.Millisecond)
			m.gateDone = true
		} else if m.rpos+len(avail) > m.gateAt {
			avail = avail[:m.gateAt-m.rpos]
		}
	}
	if m.maxRead > 0 && len(avail) > m.maxRead {
		avail = avail[:m.maxRead]
	}
	n := copy(p, avail)
	m.rpos += n
	return n, nil
}

func (m *vMemStream) Write(p []byte) (int, error) {
	if m.slowWrite > 0 && !vSymbolic() {
		time.Sleep(time.Duration(m.slowWrite) * time.Millisecond)
	}
	if m.onWrite != nil {
		m.onWrite(p)
	}
	if m.duplex {
		m.out = append(m.out, p...)
		return len(p), nil
	}
	m.buf = append(m.buf, p...)
	return len(p), nil
}

func (m *vMemStream) Close() error { m.closed = true; return nil }

var vPathLens = []int{0, 1, 2, 255, 256, 1023, 1024}
var vIDLens = []int{0, 1, 2, 255, 256, 65535}
var vBitmapLens = []int{0, 1, 2, 8, 4096}

func vShortReads() int { return vChoice("maxRead", 3) } // 0 unlimited, 1, 2

// short-read schedules only for fields up to 256 bytes (byte-wise reads of 64 KiB fields add nothing but time)
func vShortReadsFor(n int) int {
	if n > 256 {
		return 0
	}
	return vShortReads()
}

// ---------------------------------------------------------------------------------------------
// C18: control-protocol round trips

// vPathOfLen: a path of exactly n bytes. Up to 64 bytes every byte is symbolic; longer paths (which
// exercise the length framing, not the validator) are a constant filler with symbolic bytes at both
// ends and in the middle - the validator walks the path byte by byte, and 1024 data-dependent
// branches cannot be explored.
func vPathOfLen(n int) string {
	if n <= 64 {
		return vString("path", n)
	}
	edge := vString("pathEdge", 5)
	b := make([]byte, n)
	for i := range b {
		b[i] = 'a'
	}
	b[0], b[1], b[n/2], b[n-2], b[n-1] = edge[0], edge[1], edge[2], edge[3], edge[4]
	return string(b)
}

func H_C18_FileBegin() {
	pl := vPathLens[vChoice("pathLenIdx", len(vPathLens))]
	path := vPathOfLen(pl)
	vAssume(validateRelPath(path) == nil) // the writer refuses other paths
	msg := FileBegin{RelPath: path, FileSize: vU64("fileSize"), ChunkSize: vU32("chunkSize"), StreamID: vU64("streamID"),
		HashAlg: vU8("hashAlg"), StripeIndex: vU16("si"), StripeCount: vU16("sc"), StripeStart: vU32("ss"), StripeChunks: vU32("sch")}
	s := &vMemStream{maxRead: vShortReadsFor(pl)}
	err := writeFileBegin(s, msg)
	vAssert(err == nil, "writeFileBegin succeeds on a valid path")
	n := len(s.buf)
	typ, got, err := readControlMessage(s)
	vAssert(err == nil, "FileBegin decodes without error")
	vAssert(typ == controlTypeFileBegin, "FileBegin type byte")
	fb, ok := got.(FileBegin)
	vAssert(ok, "FileBegin dynamic type")
	vAssert(fb == msg, "FileBegin value round-trips")
	vAssert(s.rpos == n, "FileBegin consumes exactly the bytes written")
	vCover("C18 FileBegin")
}

func H_C18_FileDone() {
	el := vIDLens[vChoice("errLenIdx", len(vIDLens))]
	msg := FileDone{StreamID: vU64("streamID"), OK: vBool("ok"), ErrMsg: vString("err", el)}
	s := &vMemStream{maxRead: vShortReadsFor(el)}
	err := writeFileDone(s, msg)
	vAssert(err == nil, "writeFileDone succeeds")
	n := len(s.buf)
	typ, got, err := readControlMessage(s)
	vAssert(err == nil, "FileDone decodes without error")
	vAssert(typ == controlTypeFileDone, "FileDone type byte")
	fd, ok := got.(FileDone)
	vAssert(ok, "FileDone dynamic type")
	vAssert(fd == msg, "FileDone value round-trips")
	vAssert(s.rpos == n, "FileDone consumes exactly the bytes written")
	vCover("C18 FileDone")
}

func H_C18_FileResumeInfo() {
	il := vIDLens[vChoice("idLenIdx", len(vIDLens))]
	bl := vBitmapLens[vChoice("bmLenIdx", len(vBitmapLens))]
	msg := FileResumeInfo{FileID: vString("id", il), StreamID: vU64("streamID"), TotalChunks: vU32("total"),
		Bitmap: vBytes("bitmap", bl), LastVerifiedChunk: vU32("lvc"), LastVerifiedHash: vU64("lvh")}
	s := &vMemStream{maxRead: vShortReadsFor(il + bl)}
	err := writeFileResumeInfo(s, msg)
	vAssert(err == nil, "writeFileResumeInfo succeeds")
	n := len(s.buf)
	typ, got, err := readControlMessage(s)
	vAssert(err == nil, "FileResumeInfo decodes without error")
	vAssert(typ == controlTypeFileResumeInfo, "FileResumeInfo type byte")
	ri, ok := got.(FileResumeInfo)
	vAssert(ok, "FileResumeInfo dynamic type")
	vAssert(ri.FileID == msg.FileID, "FileResumeInfo.FileID")
	vAssert(ri.StreamID == msg.StreamID, "FileResumeInfo.StreamID")
	vAssert(ri.TotalChunks == msg.TotalChunks, "FileResumeInfo.TotalChunks")
	vAssert(vBytesEq(ri.Bitmap, msg.Bitmap), "FileResumeInfo.Bitmap")
	vAssert(ri.LastVerifiedChunk == msg.LastVerifiedChunk, "FileResumeInfo.LastVerifiedChunk")
	vAssert(ri.LastVerifiedHash == msg.LastVerifiedHash, "FileResumeInfo.LastVerifiedHash")
	vAssert(s.rpos == n, "FileResumeInfo consumes exactly the bytes written")
	vCover("C18 FileResumeInfo")
}

func H_C18_ResumeRequest() {
	il := vIDLens[vChoice("idLenIdx", len(vIDLens))]
	msg := ResumeRequest{FileID: vString("id", il), StreamID: vU64("streamID")}
	s := &vMemStream{maxRead: vShortReadsFor(il)}
	err := writeResumeRequest(s, msg)
	vAssert(err == nil, "writeResumeRequest succeeds")
	n := len(s.buf)
	typ, got, err := readControlMessage(s)
	vAssert(err == nil, "ResumeRequest decodes without error")
	vAssert(typ == controlTypeResumeRequest, "ResumeRequest type byte")
	rr, ok := got.(ResumeRequest)
	vAssert(ok, "ResumeRequest dynamic type")
	vAssert(rr == msg, "ResumeRequest value round-trips")
	vAssert(s.rpos == n, "ResumeRequest consumes exactly the bytes written")
	vCover("C18 ResumeRequest")
}

func H_C18_small() {
	s := &vMemStream{maxRead: vShortReads()}
	switch vChoice("kind", 5) {
	case 0:
		msg := FileEnd{StreamID: vU64("streamID"), CRC32: vU32("crc")}
		vAssert(writeFileEnd(s, msg) == nil, "writeFileEnd succeeds")
		n := len(s.buf)
		typ, got, err := readControlMessage(s)
		vAssert(err == nil, "FileEnd decodes without error")
		vAssert(typ == controlTypeFileEnd, "FileEnd type byte")
		fe, ok := got.(FileEnd)
		vAssert(ok, "FileEnd dynamic type")
		vAssert(fe == msg, "FileEnd value round-trips")
		vAssert(s.rpos == n, "FileEnd consumes exactly the bytes written")
		vCover("C18 FileEnd")
	case 1:
		msg := Credit{StreamID: vU64("streamID"), Credits: vU32("credits")}
		vAssert(writeCredit(s, msg) == nil, "writeCredit succeeds")
		n := len(s.buf)
		typ, got, err := readControlMessage(s)
		vAssert(err == nil, "Credit decodes without error")
		vAssert(typ == controlTypeCredit, "Credit type byte")
		c, ok := got.(Credit)
		vAssert(ok, "Credit dynamic type")
		vAssert(c == msg, "Credit value round-trips")
		vAssert(s.rpos == n, "Credit consumes exactly the bytes written")
		vCover("C18 Credit")
	case 2:
		msg := DataStreams{Count: vU16("count")}
		vAssert(writeDataStreams(s, msg) == nil, "writeDataStreams succeeds")
		n := len(s.buf)
		typ, got, err := readControlMessage(s)
		vAssert(err == nil, "DataStreams decodes without error")
		vAssert(typ == controlTypeDataStreams, "DataStreams type byte")
		d, ok := got.(DataStreams)
		vAssert(ok, "DataStreams dynamic type")
		vAssert(d == msg, "DataStreams value round-trips")
		vAssert(s.rpos == n, "DataStreams consumes exactly the bytes written")
		vCover("C18 DataStreams")
	case 3:
		vAssert(writeControlEnd(s) == nil, "writeControlEnd succeeds")
		n := len(s.buf)
		typ, got, err := readControlMessage(s)
		vAssert(err == nil, "End decodes without error")
		vAssert(typ == controlTypeEnd, "End type byte")
		vAssert(got == nil, "End carries no value")
		vAssert(s.rpos == n, "End consumes exactly the bytes written")
		vCover("C18 End")
	case 4:
		k := vChoice("entries", 4)
		var batch CreditBatch
		for i := 0; i < k; i++ {
			batch.Entries = append(batch.Entries, Credit{StreamID: vU64("sid"), Credits: vU32("cr")})
		}
		vAssert(writeCreditBatch(s, batch) == nil, "writeCreditBatch succeeds")
		n := len(s.buf)
		typ, got, err := readControlMessage(s)
		vAssert(err == nil, "CreditBatch decodes without error")
		vAssert(typ == controlTypeCreditBatch, "CreditBatch type byte")
		cb, ok := got.(CreditBatch)
		vAssert(ok, "CreditBatch dynamic type")
		vAssert(len(cb.Entries) == k, "CreditBatch entry count")
		for i := 0; i < k && i < len(cb.Entries); i++ {
			vAssert(cb.Entries[i] == batch.Entries[i], "CreditBatch entry round-trips")
		}
		vAssert(s.rpos == n, "CreditBatch consumes exactly the bytes written")
		vCover("C18 CreditBatch")
	}
}

// vWriteAny writes one record of a symbolic kind with symbolic (small) contents and returns a
// decoder check for it.
func vWriteAny(s *vMemStream, tag string) func(typ byte, got any) {
	switch vChoice("kind"+tag, 9) {
	case 0:
		path := vString("path"+tag, vChoice("pl"+tag, 3))
		vAssume(validateRelPath(path) == nil)
		m := FileBegin{RelPath: path, FileSize: vU64("fs" + tag), ChunkSize: vU32("cs" + tag), StreamID: vU64("sid" + tag), HashAlg: vU8("ha" + tag),
			StripeIndex: vU16("si" + tag), StripeCount: vU16("sc" + tag), StripeStart: vU32("ss" + tag), StripeChunks: vU32("sch" + tag)}
		vAssert(writeFileBegin(s, m) == nil, "seq: write FileBegin")
		return func(typ byte, got any) {
			vAssert(typ == controlTypeFileBegin, "seq: FileBegin type")
			g, ok := got.(FileBegin)
			vAssert(ok, "seq: FileBegin dyn type")
			vAssert(g == m, "seq: FileBegin value")
		}
	case 1:
		m := Credit{StreamID: vU64("sid" + tag), Credits: vU32("cr" + tag)}
		vAssert(writeCredit(s, m) == nil, "seq: write Credit")
		return func(typ byte, got any) {
			vAssert(typ == controlTypeCredit, "seq: Credit type")
			g, ok := got.(Credit)
			vAssert(ok, "seq: Credit dyn type")
			vAssert(g == m, "seq: Credit value")
		}
	case 2:
		m := FileEnd{StreamID: vU64("sid" + tag), CRC32: vU32("crc" + tag)}
		vAssert(writeFileEnd(s, m) == nil, "seq: write FileEnd")
		return func(typ byte, got any) {
			vAssert(typ == controlTypeFileEnd, "seq: FileEnd type")
			g, ok := got.(FileEnd)
			vAssert(ok, "seq: FileEnd dyn type")
			vAssert(g == m, "seq: FileEnd value")
		}
	case 3:
		m := FileDone{StreamID: vU64("sid" + tag), OK: vBool("ok" + tag), ErrMsg: vString("em"+tag, vChoice("el"+tag, 3))}
		vAssert(writeFileDone(s, m) == nil, "seq: write FileDone")
		return func(typ byte, got any) {
			vAssert(typ == controlTypeFileDone, "seq: FileDone type")
			g, ok := got.(FileDone)
			vAssert(ok, "seq: FileDone dyn type")
			vAssert(g == m, "seq: FileDone value")
		}
	case 4:
		m := FileResumeInfo{FileID: vString("id"+tag, vChoice("il"+tag, 3)), StreamID: vU64("sid" + tag), TotalChunks: vU32("tc" + tag),
			Bitmap: vBytes("bm"+tag, vChoice("bl"+tag, 3)), LastVerifiedChunk: vU32("lvc" + tag), LastVerifiedHash: vU64("lvh" + tag)}
		vAssert(writeFileResumeInfo(s, m) == nil, "seq: write FileResumeInfo")
		return func(typ byte, got any) {
			vAssert(typ == controlTypeFileResumeInfo, "seq: FileResumeInfo type")
			g, ok := got.(FileResumeInfo)
			vAssert(ok, "seq: FileResumeInfo dyn type")
			vAssert(g.FileID == m.FileID, "seq: FileResumeInfo.FileID")
			vAssert(g.StreamID == m.StreamID, "seq: FileResumeInfo.StreamID")
			vAssert(g.TotalChunks == m.TotalChunks, "seq: FileResumeInfo.TotalChunks")
			vAssert(vBytesEq(g.Bitmap, m.Bitmap), "seq: FileResumeInfo.Bitmap")
			vAssert(g.LastVerifiedChunk == m.LastVerifiedChunk, "seq: FileResumeInfo.LastVerifiedChunk")
			vAssert(g.LastVerifiedHash == m.LastVerifiedHash, "seq: FileResumeInfo.LastVerifiedHash")
		}
	case 5:
		m := ResumeRequest{FileID: vString("id"+tag, vChoice("il"+tag, 3)), StreamID: vU64("sid" + tag)}
		vAssert(writeResumeRequest(s, m) == nil, "seq: write ResumeRequest")
		return func(typ byte, got any) {
			vAssert(typ == controlTypeResumeRequest, "seq: ResumeRequest type")
			g, ok := got.(ResumeRequest)
			vAssert(ok, "seq: ResumeRequest dyn type")
			vAssert(g == m, "seq: ResumeRequest value")
		}
	case 6:
		k := vChoice("n"+tag, 3)
		var m CreditBatch
		for i := 0; i < k; i++ {
			m.Entries = append(m.Entries, Credit{StreamID: vU64("bsid" + tag), Credits: vU32("bcr" + tag)})
		}
		vAssert(writeCreditBatch(s, m) == nil, "seq: write CreditBatch")
		return func(typ byte, got any) {
			vAssert(typ == controlTypeCreditBatch, "seq: CreditBatch type")
			g, ok := got.(CreditBatch)
			vAssert(ok, "seq: CreditBatch dyn type")
			vAssert(len(g.Entries) == k, "seq: CreditBatch count")
			for i := 0; i < k && i < len(g.Entries); i++ {
				vAssert(g.Entries[i] == m.Entries[i], "seq: CreditBatch entry")
			}
		}
	case 7:
		m := DataStreams{Count: vU16("cnt" + tag)}
		vAssert(writeDataStreams(s, m) == nil, "seq: write DataStreams")
		return func(typ byte, got any) {
			vAssert(typ == controlTypeDataStreams, "seq: DataStreams type")
			g, ok := got.(DataStreams)
			vAssert(ok, "seq: DataStreams dyn type")
			vAssert(g == m, "seq: DataStreams value")
		}
	default:
		vAssert(writeControlEnd(s) == nil, "seq: write End")
		return func(typ byte, got any) {
			vAssert(typ == controlTypeEnd, "seq: End type")
			vAssert(got == nil, "seq: End value")
		}
	}
}

func vSeq(k int) {
	s := &vMemStream{}
	var checks []func(byte, any)
	tags := []string{"A", "B", "C"}
	for i := 0; i < k; i++ {
		checks = append(checks, vWriteAny(s, tags[i]))
	}
	for i := 0; i < k; i++ {
		typ, got, err := readControlMessage(s)
		vAssert(err == nil, "seq: record decodes without error")
		checks[i](typ, got)
	}
	vAssert(s.rpos == len(s.buf), "seq: stream exhausted after the last record")
	_, _, err := readControlMessage(s)
	vAssert(err != nil, "seq: reading past the end reports an error")
	vCover("C18 sequence")
}

func H_C18_seq2() { vSeq(2) }
func H_C18_seq3() { vSeq(3) }

// H_C18_header: control header with the JSON codec opaque (Marshal yields arbitrary bytes of a
// chosen length, Unmarshal of exactly those bytes yields the value back).
func H_C18_header() {
	var m manifest.Manifest
	m.Root = vString("root", vChoice("rootLen", 3))
	m.FileCount = vInt("fileCount")
	s := &vMemStream{maxRead: vShortReads()}
	vAssert(writeControlHeader(s, m) == nil, "writeControlHeader succeeds")
	n := len(s.buf)
	got, err := readControlHeader(s)
	vAssert(err == nil, "control header decodes without error")
	vAssert(got.Root == m.Root, "header manifest root")
	vAssert(got.FileCount == m.FileCount, "header manifest count")
	vAssert(s.rpos == n, "control header consumes exactly the bytes written")
	vCover("C18 header")
}

// H_C18_FileResumeInfo_large: bitmaps beyond the 64 KiB step in which long fields are read (one byte past
// one step, and past two steps). The bitmap is a constant filler with symbolic bytes at its ends and on
// both sides of every step boundary.
func H_C18_FileResumeInfo_large() {
	bl := []int{65536, 65537, 131073}[vChoice("bmLenIdx", 3)]
	bm := make([]byte, bl)
	for i := range bm {
		bm[i] = 0xA5
	}
	edge := vBytes("bitmapEdge", 8)
	bm[0], bm[1], bm[65534], bm[65535], bm[bl-1] = edge[0], edge[1], edge[2], edge[3], edge[4]
	if bl > 65536 {
		bm[65536] = edge[5]
	}
	if bl > 131072 {
		bm[131071], bm[131072] = edge[6], edge[7]
	}
	msg := FileResumeInfo{FileID: "id", StreamID: vU64("streamID"), TotalChunks: vU32("total"), Bitmap: bm, LastVerifiedChunk: vU32("lvc"), LastVerifiedHash: vU64("lvh")}
	s := &vMemStream{}
	err := writeFileResumeInfo(s, msg)
	vAssert(err == nil, "writeFileResumeInfo succeeds")
	n := len(s.buf)
	typ, got, err := readControlMessage(s)
	vAssert(err == nil, "FileResumeInfo decodes without error")
	vAssert(typ == controlTypeFileResumeInfo, "FileResumeInfo type byte")
	ri, ok := got.(FileResumeInfo)
	vAssert(ok, "FileResumeInfo dynamic type")
	vAssert(len(ri.Bitmap) == bl, "FileResumeInfo.Bitmap length")
	vAssert(vBytesEq(ri.Bitmap, msg.Bitmap), "FileResumeInfo.Bitmap")
	vAssert(ri.LastVerifiedChunk == msg.LastVerifiedChunk, "FileResumeInfo.LastVerifiedChunk")
	vAssert(ri.LastVerifiedHash == msg.LastVerifiedHash, "FileResumeInfo.LastVerifiedHash")
	vAssert(s.rpos == n, "FileResumeInfo consumes exactly the bytes written")
	vCover("C18 FileResumeInfo large")
}
