package transfer

// Source harnesses (CBMC idiom). Executed symbolically by symgo; compiled natively for replay.

var vHarnesses = map[string]func(){}

func init() {
	vHarnesses["H_smoke"] = H_smoke
}

func H_smoke() {
	x := vU32("x")
	y := vU32("y")
	vAssume(x < 100)
	vAssume(y < 100)
	if x > y {
		vAssert(x-y < 100, "diff small")
	} else {
		vAssert(y-x < 100, "diff small 2")
	}
	vAssert(x+y != 77, "sum not 77")
}
