package transfer

import (
	"context"
	"errors"
	"hash/crc32"
	"io"
	"net"
	"os"
	"sync"

	"github.com/sheerbytes/sheerbytes/pkg/manifest"
)

// ---------------------------------------------------------------------------------------------
// Both real endpoints at once: SendManifestMultiStream and RecvManifestMultiStream run against each
// other over an in-memory connection whose streams are buffered byte queues (a write never blocks, Close
// ends the writer's direction, the reader sees EOF after draining - the shape of a QUIC stream).

type vPipe struct {
	mu     sync.Mutex
	buf    []byte
	closed bool
	note   chan struct{} // capacity 1: a wake-up before the reader waits is not lost (one reader per direction)
}

func newVPipe() *vPipe { return &vPipe{note: make(chan struct{}, 1)} }

func (p *vPipe) wake() {
	select {
	case p.note <- struct{}{}:
	default:
	}
}

type vPipeStream struct {
	r, w *vPipe
	id   uint64
}

func (s *vPipeStream) Read(b []byte) (int, error) {
	for {
		s.r.mu.Lock()
		if len(s.r.buf) > 0 {
			n := copy(b, s.r.buf)
			s.r.buf = s.r.buf[n:]
			s.r.mu.Unlock()
			return n, nil
		}
		closed := s.r.closed
		s.r.mu.Unlock()
		if closed {
			return 0, io.EOF
		}
		<-s.r.note
	}
}

func (s *vPipeStream) Write(b []byte) (int, error) {
	s.w.mu.Lock()
	if s.w.closed {
		s.w.mu.Unlock()
		return 0, io.ErrClosedPipe
	}
	s.w.buf = append(s.w.buf, b...)
	s.w.mu.Unlock()
	s.w.wake()
	return len(b), nil
}

func (s *vPipeStream) Close() error {
	s.w.mu.Lock()
	s.w.closed = true
	s.w.mu.Unlock()
	s.w.wake()
	return nil
}

func (s *vPipeStream) StreamID() uint64 { return s.id }

type vPipeConn struct {
	incoming chan *vPipeStream
	peer     *vPipeConn
	opened   uint64
}

func vNewPipeConns() (*vPipeConn, *vPipeConn) {
	a := &vPipeConn{incoming: make(chan *vPipeStream, 8)}
	b := &vPipeConn{incoming: make(chan *vPipeStream, 8)}
	a.peer, b.peer = b, a
	return a, b
}

func (c *vPipeConn) OpenStream(ctx context.Context) (Stream, error) {
	out, in := newVPipe(), newVPipe()
	id := c.opened
	c.opened++
	c.peer.incoming <- &vPipeStream{r: out, w: in, id: id}
	return &vPipeStream{r: in, w: out, id: id}, nil
}

func (c *vPipeConn) AcceptStream(ctx context.Context) (Stream, error) {
	select {
	case s := <-c.incoming:
		return s, nil
	case <-ctx.Done():
		return nil, errors.New("accept: context done")
	}
}
func (c *vPipeConn) RemoteAddr() net.Addr { return nil }
func (c *vPipeConn) Close() error         { return nil }

// H_C01_endtoend: a tree of one data file (5 or 8 symbolic bytes, chunk size 4) and one empty file goes
// from the real sender to the real receiver. Asserted: both endpoints come back (no state in which
// everybody waits), both report success, and the output holds exactly the two files with the source's
// bytes.
func H_C01_endtoend()              { vC01EndToEnd([]int{1, 4, 5, 8}, 2) }
func H_C01_endtoend_preempt()      { vC01EndToEnd([]int{5}, 0) }
func H_C01_endtoend_preempt_deep() { vC01EndToEnd([]int{4, 5, 8}, 2) }

// resumeMode: 0 off, 1 on, 2 either
func vC01EndToEnd(sizes []int, resumeMode int) {
	resume := resumeMode == 1
	if resumeMode == 2 {
		resume = vBool("resume")
	}
	size := sizes[vChoice("sizeIdx", len(sizes))]
	src := vBytes("src", size)
	dir := vTempDir()
	vTempFile("src/f", src)
	vTempFile("src/e", nil)
	f := manifest.FileItem{RelPath: "f", Size: int64(size), ID: "idf"}
	e := manifest.FileItem{RelPath: "e", Size: 0, ID: "ide"}
	m := manifest.Manifest{Root: "src", Items: []manifest.FileItem{e, f}, TotalBytes: int64(size), FileCount: 2}
	a, b := vNewPipeConns()
	var sendErr error
	done := make(chan struct{})
	go func() {
		sendErr = SendManifestMultiStream(vContext("sctx", false), a, dir+"/src", m, Options{ChunkSize: 4, ParallelFiles: 1, Resume: resume})
		close(done)
	}()
	out := dir + "/out"
	_, recvErr := RecvManifestMultiStream(vContext("rctx", false), b, out, Options{NoRootDir: true, Resume: resume})
	<-done
	vAssert(recvErr == nil, "between healthy peers the receiver reports success")
	vAssert(sendErr == nil, "between healthy peers the sender reports success")
	got, rerr := os.ReadFile(out + "/f")
	vAssert(rerr == nil && len(got) == size, "the data file arrived with its length")
	vAssert(vBytesEq(got, src), "the data file arrived byte for byte")
	ge, eerr := os.ReadFile(out + "/e")
	vAssert(eerr == nil && len(ge) == 0, "the empty file arrived")
	vCover("C01 end to end: delivered")
}

// H_C04_endtoend: the second run of an interrupted transfer with both real endpoints. The output
// directory holds resume metadata (symbolic bitmap) and a data file that is intact, missing or shortened;
// marked chunks that are still there equal the source, except that the highest marked chunk may be
// damaged (torn write) - then its CRC differs from the source chunk's (assumption A-CRC3). The real
// sender asks for the report, plans from what the real receiver answers, verifies the last chunk by hash
// and sends. Asserted: both come back, both report success, the file equals the source.
func H_C04_endtoend()      { vC04EndToEnd([]int{5}, false) }
func H_C04_endtoend_deep() { vC04EndToEnd([]int{5, 8, 9}, false) }

// H_C06_repair: the same second run, where the highest chunk the metadata marks is damaged on disk.
func H_C06_repair()      { vC04EndToEnd([]int{5}, true) }
func H_C06_repair_deep() { vC04EndToEnd([]int{5, 8, 9}, true) }

func vC04EndToEnd(sizes []int, tornLastChunk bool) {
	size := sizes[vChoice("sizeIdx", len(sizes))]
	total := (size + 3) / 4
	src := vBytes("src", size)
	dir := vTempDir()
	out := dir + "/out"
	vTempFile("src/f", src)
	item := manifest.FileItem{RelPath: "f", Size: int64(size), ID: "idf"}
	m := manifest.Manifest{Root: "src", Items: []manifest.FileItem{item}, TotalBytes: int64(size), FileCount: 1}
	bits := vU8("bitmap")
	vAssume(bits>>uint(total) == 0)
	old := vBytes("old", size)
	highest := -1
	for i := 0; i < total; i++ {
		if bits&(1<<uint(i)) != 0 {
			highest = i
		}
	}
	damaged := tornLastChunk
	if damaged {
		vAssume(highest >= 0)
	}
	for i := 0; i < total; i++ {
		if bits&(1<<uint(i)) == 0 {
			continue
		}
		lo, hi := i*4, i*4+4
		if hi > size {
			hi = size
		}
		if damaged && i == highest {
			vAssume(crc32.Checksum(old[lo:hi], crc32cTable) != crc32.Checksum(src[lo:hi], crc32cTable))
			if bits == byte(1<<uint(total))-1 {
				vTag("all-chunks-marked")
			}
			continue
		}
		copy(old[lo:hi], src[lo:hi])
	}
	switch vChoice("dataFile", 3) {
	case 0:
		vTempFile("out/f", old)
		vTag("intact")
	case 1:
		vTempFile("out/f", old[:[]int{0, 3, 4}[vChoice("keptBytesIdx", 3)]])
		vTag("shortened")
	default:
		vTempFile("out/other", []byte{1})
		vTag("missing")
	}
	sc := &Sidecar{Path: SidecarPath(out, "", sidecarIdentifier(item)), FileID: item.ID, FileSize: int64(size), ChunkSize: 4, TotalChunks: uint32(total),
		bitmap: &Bitmap{bits: total, data: []byte{bits}}, dirty: true}
	vAssume(sc.Flush() == nil)
	a, b := vNewPipeConns()
	var sendErr error
	done := make(chan struct{})
	go func() {
		sendErr = SendManifestMultiStream(vContext("sctx", false), a, dir+"/src", m, Options{ChunkSize: 4, ParallelFiles: 1, Resume: true, ResumeVerify: "last"})
		close(done)
	}()
	_, recvErr := RecvManifestMultiStream(vContext("rctx", false), b, out, Options{NoRootDir: true, Resume: true, ResumeVerify: "last"})
	<-done
	vAssert(recvErr == nil, "the resumed transfer: the receiver reports success")
	vAssert(sendErr == nil, "the resumed transfer: the sender reports success")
	got, rerr := os.ReadFile(out + "/f")
	vAssert(rerr == nil && len(got) == size, "the resumed file has its length")
	vAssert(vBytesEq(got, src), "after the resumed transfer the file equals the source")
	vCover("C04 end to end: resumed and identical")
}
