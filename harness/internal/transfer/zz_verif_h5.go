package transfer

import (
	"context"
	"encoding/binary"
	"errors"
	"hash/crc32"
	"io"
	"net"
	"os"
	"sync"
	"time"

	"github.com/sheerbytes/sheerbytes/pkg/manifest"
)

// ---------------------------------------------------------------------------------------------
// Both real endpoints at once: SendManifestMultiStream and RecvManifestMultiStream run against each
// other over an in-memory connection whose streams are buffered byte queues (a write never blocks, Close
// ends the writer's direction, the reader sees EOF after draining - the shape of a QUIC stream).

type vPipe struct {
	mu     sync.Mutex
	buf    []byte
	closed bool
	note   chan struct{} // capacity 1: a wake-up before the reader waits is not lost (one reader per direction)
	link   *vLink
	writes int
	log    []byte // everything ever written into this direction (the reader consumes buf)
}

// vLink: what both ends of a connection share. A connection can be scripted to be lost: at the
// cutWrite-th Write call on the cutPipe-th pipe (pipes numbered in the order the streams were opened,
// two per stream: opener->acceptor first), after half of that call's bytes if cutMid. From then on every
// Write on every stream of the connection fails, and every Read once what had arrived is consumed.
type vLink struct {
	mu       sync.Mutex
	pipes    []*vPipe
	lost     bool
	cutPipe  int
	cutWrite int
	cutMid   bool
	// dropInFlight: bytes written before the loss but not yet read are gone as well; otherwise the peer
	// still reads them and then gets the error
	dropInFlight bool
	graceful     bool // readers see a clean end of stream instead of an error (close with application code 0)
}

var errVLost = errors.New("connection lost")

// vPipeSlow: native pacing (see Read): 0 none, 1 data streams late, 2 control stream late
var vPipeSlow int

// vPaced runs an end-to-end scenario; natively three times - unpaced, data late, control late - because
// which stream's bytes are seen first is the Go scheduler's choice there.
func vPaced(body func()) {
	for iter := 0; iter < vRepeat(3); iter++ {
		vResetInputs()
		vPipeSlow = iter
		body()
	}
	vPipeSlow = 0
}

func (l *vLink) newPipe() *vPipe {
	p := &vPipe{note: make(chan struct{}, 1), link: l}
	l.mu.Lock()
	l.pipes = append(l.pipes, p)
	l.mu.Unlock()
	return p
}

func (l *vLink) isLost() bool {
	l.mu.Lock()
	defer l.mu.Unlock()
	return l.lost
}

func (l *vLink) lose() {
	l.mu.Lock()
	l.lost = true
	ps := append([]*vPipe{}, l.pipes...)
	drop := l.dropInFlight
	l.mu.Unlock()
	for _, p := range ps {
		if drop {
			p.mu.Lock()
			p.buf = nil
			p.mu.Unlock()
		}
		p.wake()
	}
}

func (l *vLink) index(p *vPipe) int {
	l.mu.Lock()
	defer l.mu.Unlock()
	for i, q := range l.pipes {
		if q == p {
			return i
		}
	}
	return -1
}

func (p *vPipe) wake() {
	select {
	case p.note <- struct{}{}:
	default:
	}
}

type vPipeStream struct {
	r, w *vPipe
	id   uint64
}

func (s *vPipeStream) Read(b []byte) (int, error) {
	if !vSymbolic() && vPipeSlow != 0 {
		// native pacing only: one kind of stream is delivered late, so that the other kind overtakes it (the
		// engine explores schedules itself). Pipes 0 and 1 are the control stream's two directions.
		if i := s.r.link.index(s.r); (vPipeSlow == 1 && i >= 2) || (vPipeSlow == 2 && i < 2) {
			time.Sleep(15 * time.Millisecond)
		}
	}
	for {
		s.r.mu.Lock()
		if len(s.r.buf) > 0 {
			n := copy(b, s.r.buf)
			s.r.buf = s.r.buf[n:]
			s.r.mu.Unlock()
			return n, nil
		}
		closed := s.r.closed
		s.r.mu.Unlock()
		if s.r.link.isLost() {
			if s.r.link.graceful {
				return 0, io.EOF // the peer closed the connection without an error code
			}
			return 0, errVLost
		}
		if closed {
			return 0, io.EOF
		}
		<-s.r.note
	}
}

func (s *vPipeStream) Write(b []byte) (int, error) {
	l := s.w.link
	if l.isLost() {
		return 0, errVLost
	}
	s.w.mu.Lock()
	if s.w.closed {
		s.w.mu.Unlock()
		return 0, io.ErrClosedPipe
	}
	n := s.w.writes
	s.w.writes++
	s.w.mu.Unlock()
	if l.cutWrite >= 0 && n == l.cutWrite && l.index(s.w) == l.cutPipe {
		part := 0
		if l.cutMid {
			part = len(b) / 2
		}
		if part > 0 {
			s.w.mu.Lock()
			s.w.buf = append(s.w.buf, b[:part]...)
			s.w.mu.Unlock()
		}
		l.lose()
		return part, errVLost
	}
	s.w.mu.Lock()
	s.w.buf = append(s.w.buf, b...)
	s.w.log = append(s.w.log, b...)
	s.w.mu.Unlock()
	s.w.wake()
	return len(b), nil
}

func (s *vPipeStream) Close() error {
	s.w.mu.Lock()
	s.w.closed = true
	s.w.mu.Unlock()
	s.w.wake()
	return nil
}

func (s *vPipeStream) StreamID() uint64 { return s.id }

type vPipeConn struct {
	incoming chan *vPipeStream
	peer     *vPipeConn
	opened   uint64
	link     *vLink
}

func vNewPipeConns() (*vPipeConn, *vPipeConn) {
	l := &vLink{cutWrite: -1}
	a := &vPipeConn{incoming: make(chan *vPipeStream, 8), link: l}
	b := &vPipeConn{incoming: make(chan *vPipeStream, 8), link: l}
	a.peer, b.peer = b, a
	return a, b
}

func (c *vPipeConn) OpenStream(ctx context.Context) (Stream, error) {
	if c.link.isLost() {
		return nil, errVLost
	}
	out, in := c.link.newPipe(), c.link.newPipe()
	id := c.opened
	c.opened++
	c.peer.incoming <- &vPipeStream{r: out, w: in, id: id}
	return &vPipeStream{r: in, w: out, id: id}, nil
}

func (c *vPipeConn) AcceptStream(ctx context.Context) (Stream, error) {
	select {
	case s := <-c.incoming:
		return s, nil
	case <-ctx.Done():
		return nil, errors.New("accept: context done")
	}
}
func (c *vPipeConn) RemoteAddr() net.Addr { return nil }
func (c *vPipeConn) Close() error         { return nil }

// H_C01_endtoend: a tree of one data file (5 or 8 symbolic bytes, chunk size 4) and one empty file goes
// from the real sender to the real receiver. Asserted: both endpoints come back (no state in which
// everybody waits), both report success, and the output holds exactly the two files with the source's
// bytes.
func H_C01_endtoend()              { vPaced(func() { vC01EndToEnd([]int{1, 4, 5, 8}, 2) }) }
func H_C01_endtoend_preempt()      { vPaced(func() { vC01EndToEnd([]int{5}, 0) }) }
func H_C01_endtoend_preempt_deep() { vPaced(func() { vC01EndToEnd([]int{4, 5, 8}, 2) }) }

// resumeMode: 0 off, 1 on, 2 either
func vC01EndToEnd(sizes []int, resumeMode int) {
	resume := resumeMode == 1
	if resumeMode == 2 {
		resume = vBool("resume")
	}
	size := sizes[vChoice("sizeIdx", len(sizes))]
	src := vBytes("src", size)
	dir := vTempDir()
	vTempFile("src/f", src)
	vTempFile("src/e", nil)
	f := manifest.FileItem{RelPath: "f", Size: int64(size), ID: "idf"}
	e := manifest.FileItem{RelPath: "e", Size: 0, ID: "ide"}
	m := manifest.Manifest{Root: "src", Items: []manifest.FileItem{e, f}, TotalBytes: int64(size), FileCount: 2}
	if resumeMode == 2 {
		// the output directory may already hold an older copy of the file: longer, or shorter (no resume
		// metadata belongs to it)
		switch vChoice("previousCopy", 3) {
		case 1:
			vTempFile("out/f", vBytes("older", size+3))
			vTag("older-copy-longer")
		case 2:
			vTempFile("out/f", vBytes("older", size-1))
			vTag("older-copy-shorter")
		}
	}
	a, b := vNewPipeConns()
	var sendErr error
	done := make(chan struct{})
	go func() {
		sendErr = SendManifestMultiStream(vContext("sctx", false), a, dir+"/src", m, Options{ChunkSize: 4, ParallelFiles: 1, Resume: resume})
		close(done)
	}()
	out := dir + "/out"
	_, recvErr := RecvManifestMultiStream(vContext("rctx", false), b, out, Options{NoRootDir: true, Resume: resume})
	<-done
	vAssert(recvErr == nil, "between healthy peers the receiver reports success")
	vAssert(sendErr == nil, "between healthy peers the sender reports success")
	got, rerr := os.ReadFile(out + "/f")
	vAssert(rerr == nil && len(got) == size, "the data file arrived with its length")
	vAssert(vBytesEq(got, src), "the data file arrived byte for byte")
	ge, eerr := os.ReadFile(out + "/e")
	vAssert(eerr == nil && len(ge) == 0, "the empty file arrived")
	vCover("C01 end to end: delivered")
}

// H_C04_endtoend: the second run of an interrupted transfer with both real endpoints. The output
// directory holds resume metadata (symbolic bitmap) and a data file that is intact, missing or shortened;
// marked chunks that are still there equal the source, except that the highest marked chunk may be
// damaged (torn write) - then its CRC differs from the source chunk's (assumption A-CRC3). The real
// sender asks for the report, plans from what the real receiver answers, verifies the last chunk by hash
// and sends. Asserted: both come back, both report success, the file equals the source.
func H_C04_endtoend()      { vPaced(func() { vC04EndToEnd([]int{5}, false) }) }
func H_C04_endtoend_deep() { vPaced(func() { vC04EndToEnd([]int{5, 8, 9}, false) }) }

// H_C04_endtoend_tail: as H_C04_endtoend with two data streams and a verification tail of one chunk (the
// sender re-sends the chunk before the verification point: duplicates that can arrive on the other stream
// while the file completes).
func H_C04_endtoend_tail() {
	vC04Streams, vC04Tail = 2, 1
	vPaced(func() { vC04EndToEnd([]int{9}, false) })
	vC04Streams, vC04Tail = 1, 0
}

var vC04Streams, vC04Tail = 1, 0

// H_C06_repair: the same second run, where the highest chunk the metadata marks is damaged on disk.
func H_C06_repair() {
	vPaced(func() {
		vC04Tail = vChoice("verifyTail", 2) // 0, or 1 as the application configures it
		vC04EndToEnd([]int{5}, true)
		vC04Tail = 0
	})
}
func H_C06_repair_deep() { vPaced(func() { vC04EndToEnd([]int{5, 8, 9}, true) }) }

func vC04EndToEnd(sizes []int, tornLastChunk bool) {
	size := sizes[vChoice("sizeIdx", len(sizes))]
	total := (size + 3) / 4
	src := vBytes("src", size)
	dir := vTempDir()
	out := dir + "/out"
	vTempFile("src/f", src)
	item := manifest.FileItem{RelPath: "f", Size: int64(size), ID: "idf"}
	m := manifest.Manifest{Root: "src", Items: []manifest.FileItem{item}, TotalBytes: int64(size), FileCount: 1}
	bits := vU8("bitmap")
	vAssume(bits>>uint(total) == 0)
	old := vBytes("old", size)
	highest := -1
	for i := 0; i < total; i++ {
		if bits&(1<<uint(i)) != 0 {
			highest = i
		}
	}
	damaged := tornLastChunk
	if damaged {
		vAssume(highest >= 0)
	}
	for i := 0; i < total; i++ {
		if bits&(1<<uint(i)) == 0 {
			continue
		}
		lo, hi := i*4, i*4+4
		if hi > size {
			hi = size
		}
		if damaged && i == highest {
			vAssume(crc32.Checksum(old[lo:hi], crc32cTable) != crc32.Checksum(src[lo:hi], crc32cTable))
			if bits == byte(1<<uint(total))-1 {
				vTag("all-chunks-marked")
			}
			continue
		}
		copy(old[lo:hi], src[lo:hi])
	}
	switch vChoice("dataFile", 3) {
	case 0:
		vTempFile("out/f", old)
		vTag("intact")
	case 1:
		vTempFile("out/f", old[:[]int{0, 3, 4}[vChoice("keptBytesIdx", 3)]])
		vTag("shortened")
	default:
		vTempFile("out/other", []byte{1})
		vTag("missing")
	}
	sc := &Sidecar{Path: SidecarPath(out, "", sidecarIdentifier(item)), FileID: item.ID, FileSize: int64(size), ChunkSize: 4, TotalChunks: uint32(total),
		bitmap: &Bitmap{bits: total, data: []byte{bits}}, dirty: true}
	vAssume(sc.Flush() == nil)
	a, b := vNewPipeConns()
	var sendErr error
	done := make(chan struct{})
	go func() {
		sendErr = SendManifestMultiStream(vContext("sctx", false), a, dir+"/src", m, Options{ChunkSize: 4, ParallelFiles: vC04Streams, Resume: true, ResumeVerify: "last", ResumeVerifyTail: uint32(vC04Tail)})
		close(done)
	}()
	_, recvErr := RecvManifestMultiStream(vContext("rctx", false), b, out, Options{NoRootDir: true, Resume: true, ResumeVerify: "last"})
	<-done
	vAssert(recvErr == nil, "the resumed transfer: the receiver reports success")
	vAssert(sendErr == nil, "the resumed transfer: the sender reports success")
	if damaged {
		// whatever happens to it on the receiving side: the sender must have noticed the mismatch and sent
		// the damaged chunk again (data pipes are those after the control stream's two)
		resent := false
		for _, p := range a.link.pipes[2:] {
			for pos := 0; pos+dataChunkHeaderLen <= len(p.log); {
				idx := int(binary.BigEndian.Uint32(p.log[pos+8 : pos+12]))
				ln := int(binary.BigEndian.Uint32(p.log[pos+12 : pos+16]))
				if idx == highest {
					resent = true
				}
				pos += dataChunkHeaderLen + ln
			}
		}
		vAssert(resent, "a damaged last chunk is detected by its hash and sent again")
	}
	got, rerr := os.ReadFile(out + "/f")
	vAssert(rerr == nil && len(got) == size, "the resumed file has its length")
	vAssert(vBytesEq(got, src), "after the resumed transfer the file equals the source")
	vCover("C04 end to end: resumed and identical")
}

// H_C03_endtoend: tree shapes at the edges - empty manifest, a directory only, a zero-length file only,
// one 1-byte file on four streams (fewer chunks than streams), two files on two streams - between the
// real sender and the real receiver, resume on or off: both come back and report success, the tree is
// the announced one.
func H_C03_endtoend() { vPaced(vC03_endtoend) }

func vC03_endtoend() {
	dir := vTempDir()
	out := dir + "/out"
	var m manifest.Manifest
	m.Root = "src"
	streams := 1
	shape := vChoice("shape", 5)
	srcA, srcB := vBytes("srcA", 5), vBytes("srcB", 4)
	vTempFile("src/keep", []byte{1}) // the source directory exists in every shape
	switch shape {
	case 0:
		vTag("empty-manifest")
	case 1:
		vTag("directory-only")
		m.Items = []manifest.FileItem{{RelPath: "d", IsDir: true}}
		m.FolderCount = 1
	case 2:
		vTag("zero-length-file")
		vTempFile("src/e", nil)
		m.Items = []manifest.FileItem{{RelPath: "e", Size: 0, ID: "ide"}}
		m.FileCount = 1
	case 3:
		vTag("fewer-chunks-than-streams")
		vTempFile("src/a", srcA[:1])
		m.Items = []manifest.FileItem{{RelPath: "a", Size: 1, ID: "ida"}}
		m.FileCount, m.TotalBytes = 1, 1
		streams = 4
	default:
		vTag("two-files-two-streams")
		vTempFile("src/a", srcA)
		vTempFile("src/b", srcB)
		m.Items = []manifest.FileItem{{RelPath: "a", Size: 5, ID: "ida"}, {RelPath: "b", Size: 4, ID: "idb"}}
		m.FileCount, m.TotalBytes = 2, 9
		streams = 2
	}
	resume := vBool("resume")
	a, b := vNewPipeConns()
	var sendErr error
	done := make(chan struct{})
	go func() {
		sendErr = SendManifestMultiStream(vContext("sctx", false), a, dir+"/src", m, Options{ChunkSize: 4, ParallelFiles: streams, Resume: resume})
		close(done)
	}()
	_, recvErr := RecvManifestMultiStream(vContext("rctx", false), b, out, Options{NoRootDir: true, Resume: resume})
	<-done
	vAssert(recvErr == nil, "between healthy peers the receiver reports success")
	vAssert(sendErr == nil, "between healthy peers the sender reports success")
	switch shape {
	case 1:
		st, err := os.Stat(out + "/d")
		vAssert(err == nil && st.IsDir(), "the directory of the manifest exists")
	case 2:
		got, err := os.ReadFile(out + "/e")
		vAssert(err == nil && len(got) == 0, "the zero-length file exists and is empty")
	case 3:
		got, err := os.ReadFile(out + "/a")
		vAssert(err == nil && vBytesEq(got, srcA[:1]), "the one-byte file arrived")
	case 4:
		ga, ea := os.ReadFile(out + "/a")
		gb, eb := os.ReadFile(out + "/b")
		vAssert(ea == nil && vBytesEq(ga, srcA), "file a arrived byte for byte")
		vAssert(eb == nil && vBytesEq(gb, srcB), "file b arrived byte for byte")
	}
	vCover("C03 end to end: completed")
}

// H_C02_endtoend_lost: the connection between the real sender and the real receiver is lost at the n-th
// write of one of the streams' directions (control sender->receiver, control receiver->sender, data
// sender->receiver), between two writes or in the middle of one, with or without the bytes in flight.
// Each side must come back; a side that reports success implies the file is complete and identical,
// and the sender reports success only if the receiver had confirmed (then the file is identical too).
func H_C02_endtoend_lost() { vPaced(vC02_endtoend_lost) }

func vC02_endtoend_lost() {
	size := 5
	src := vBytes("src", size)
	dir := vTempDir()
	out := dir + "/out"
	vTempFile("src/f", src)
	item := manifest.FileItem{RelPath: "f", Size: int64(size), ID: "idf"}
	m := manifest.Manifest{Root: "src", Items: []manifest.FileItem{item}, TotalBytes: int64(size), FileCount: 1}
	a, b := vNewPipeConns()
	l := a.link
	l.cutPipe = []int{0, 1, 2}[vChoice("cutStream", 3)] // 0: control s->r, 1: control r->s, 2: data s->r
	l.cutWrite = vChoice("cutAtWrite", 24)
	l.cutMid = vBool("cutInsideWrite")
	l.dropInFlight = vBool("dropInFlight")
	l.graceful = vBool("gracefulClose")
	resume := vBool("resume")
	var sendErr error
	done := make(chan struct{})
	go func() {
		sendErr = SendManifestMultiStream(vContext("sctx", false), a, dir+"/src", m, Options{ChunkSize: 4, ParallelFiles: 1, Resume: resume})
		close(done)
	}()
	_, recvErr := RecvManifestMultiStream(vContext("rctx", false), b, out, Options{NoRootDir: true, Resume: resume})
	<-done
	if recvErr == nil || sendErr == nil {
		got, rerr := os.ReadFile(out + "/f")
		vAssert(rerr == nil && len(got) == size && vBytesEq(got, src), "a side reports success only if the file is complete and identical")
	}
	if l.isLost() {
		vCover("C02 end to end: connection lost")
	} else {
		vAssert(recvErr == nil && sendErr == nil, "without a fault both sides succeed")
		vCover("C02 end to end: cut point beyond the transfer")
	}
}

// H_C02_endtoend_cancel: the caller of the real sender or of the real receiver cancels its context at
// some moment of a transfer over a working connection. Both sides must come back; a side that reports
// success implies the file is complete and identical.
func H_C02_endtoend_cancel() { vPaced(vC02_endtoend_cancel) }

func vC02_endtoend_cancel() {
	size := 5
	src := vBytes("src", size)
	dir := vTempDir()
	out := dir + "/out"
	vTempFile("src/f", src)
	item := manifest.FileItem{RelPath: "f", Size: int64(size), ID: "idf"}
	m := manifest.Manifest{Root: "src", Items: []manifest.FileItem{item}, TotalBytes: int64(size), FileCount: 1}
	a, b := vNewPipeConns()
	senderCancels := vBool("senderSideCancels")
	if senderCancels {
		vTag("sender-cancels")
	} else {
		vTag("receiver-cancels")
	}
	sctx := vContext("sctx", senderCancels)
	rctx := vContext("rctx", !senderCancels)
	var sendErr error
	done := make(chan struct{})
	// an endpoint that has returned closes its connection, as the application (or the end of the process) does
	go func() {
		sendErr = SendManifestMultiStream(sctx, a, dir+"/src", m, Options{ChunkSize: 4, ParallelFiles: 1})
		if sendErr != nil {
			a.link.lose()
		}
		close(done)
	}()
	_, recvErr := RecvManifestMultiStream(rctx, b, out, Options{NoRootDir: true})
	if recvErr != nil {
		b.link.lose()
	}
	<-done
	if recvErr == nil || sendErr == nil {
		got, rerr := os.ReadFile(out + "/f")
		vAssert(rerr == nil && len(got) == size && vBytesEq(got, src), "a side reports success only if the file is complete and identical")
	}
	if recvErr == nil && sendErr == nil {
		vCover("C02 end to end: not cancelled in time, both succeed")
	} else {
		vCover("C02 end to end: cancelled")
	}
}

// H_C04_chain: an interrupted run followed by a resumed one, both with the real sender and the real
// receiver. In run 1 the connection is lost at the n-th write of the data stream or of the control
// stream (either direction); whatever that leaves in the output directory - partial file, resume
// metadata or none - is what run 2 (new connection, same directories, resume on) starts from. Run 2
// must succeed on both sides and leave the file identical to the source.
func H_C04_chain()      { vPaced(func() { vC04Chain([]int{5}, 12) }) }
func H_C04_chain_deep() { vPaced(func() { vC04Chain([]int{5, 9}, 24) }) }

func vC04Chain(sizes []int, cuts int) {
	size := sizes[vChoice("sizeIdx", len(sizes))]
	src := vBytes("src", size)
	dir := vTempDir()
	out := dir + "/out"
	vTempFile("src/f", src)
	item := manifest.FileItem{RelPath: "f", Size: int64(size), ID: "idf"}
	m := manifest.Manifest{Root: "src", Items: []manifest.FileItem{item}, TotalBytes: int64(size), FileCount: 1}
	run := func(cutPipe, cutWrite int) (error, error) {
		a, b := vNewPipeConns()
		a.link.cutPipe, a.link.cutWrite = cutPipe, cutWrite
		var sendErr error
		done := make(chan struct{})
		go func() {
			sendErr = SendManifestMultiStream(vContext("sctx", false), a, dir+"/src", m, Options{ChunkSize: 4, ParallelFiles: 1, Resume: true})
			if sendErr != nil {
				a.link.lose()
			}
			close(done)
		}()
		_, recvErr := RecvManifestMultiStream(vContext("rctx", false), b, out, Options{NoRootDir: true, Resume: true})
		if recvErr != nil {
			b.link.lose()
		}
		<-done
		return sendErr, recvErr
	}
	s1, r1 := run([]int{2, 0, 1}[vChoice("cutStream", 3)], vChoice("cutAtWrite", cuts))
	if s1 == nil && r1 == nil {
		vCover("C04 chain: run 1 was not interrupted")
	} else {
		vCover("C04 chain: run 1 interrupted")
	}
	s2, r2 := run(0, -1)
	vAssert(r2 == nil, "the resumed run: the receiver reports success")
	vAssert(s2 == nil, "the resumed run: the sender reports success")
	got, rerr := os.ReadFile(out + "/f")
	vAssert(rerr == nil && len(got) == size && vBytesEq(got, src), "after the resumed run the file equals the source")
	vCover("C04 chain: resumed and identical")
}
