package transfer

// Native replay driver for the closure-unit obligations on the sender's resume plan: the real
// SendManifestMultiStream runs over the in-memory transport against a scripted receiver that answers
// the resume request with the FileResumeInfo of the solver's model and records which chunks arrive.
// The same resume semantics as in the symbolic check are then asserted on the observed chunks.

import (
	"context"
	"encoding/binary"
	"fmt"
	"io"
	"os"
	"path/filepath"
	"sync"
	"testing"
	"time"

	"github.com/sheerbytes/sheerbytes/pkg/manifest"
)

func vReplayNum(n string) uint64 { vLoad(); return vNumRaw(n) }

func TestVerifPlanReplay(t *testing.T) {
	vLoad()
	total := int(vNumRaw("totalMinus1")) + 1
	size := int64(vNumRaw("size"))
	const cs = 4
	bitmap := vBytesRaw("bitmap", (total+7)/8)
	V := uint32(vNumRaw("lastVerifiedChunk"))
	vhash := vNumRaw("lastVerifiedHash")
	senderHashModel := vNumRaw("senderHash")
	tail := uint32(vNumRaw("resumeVerifyTail"))
	modes := []string{"last", "none", "all"}
	mode := modes[vNumRaw("resumeVerify")]
	algs := []string{"crc32c", "none"}
	alg := algs[vNumRaw("hashAlg")]
	fileIDEmpty := vNumRaw("fileID") == 1
	totalFieldZero := vNumRaw("totalField") == 1
	if vNumRaw("hashErr") == 1 {
		fmt.Println("REPLAY-OUTCOME: OK (hash error path not replayed)")
		return
	}

	srcDir := t.TempDir()
	data := make([]byte, size)
	for i := range data {
		data[i] = byte('a' + i%23)
	}
	if err := os.WriteFile(filepath.Join(srcDir, "f"), data, 0o644); err != nil {
		t.Fatal(err)
	}
	m, err := manifest.Scan(srcDir)
	if err != nil {
		t.Fatal(err)
	}
	var item manifest.FileItem
	for _, it := range m.Items {
		if !it.IsDir {
			item = it
		}
	}
	if int(chunkTotal(item.Size, cs)) != total {
		fmt.Println("REPLAY-OUTCOME: ASSUME-FAILED")
		return
	}
	// the receiver's claimed hash: equal to the sender's real hash iff the model's two hashes are equal
	hashUnknown := vhash == ^uint64(0)
	claimed := vhash
	if !hashUnknown && V < uint32(total) && alg != "none" {
		real, err := hashFileChunk(filepath.Join(srcDir, "f"), V, cs, item.Size, HashAlgCRC32C)
		if err != nil {
			t.Fatal(err)
		}
		if senderHashModel == vhash {
			claimed = real
		} else {
			claimed = real ^ 1
			if claimed == ^uint64(0) {
				claimed = real ^ 2
			}
		}
	}
	mismatch := !hashUnknown && V < uint32(total) && alg != "none" && mode != "none" && senderHashModel != vhash

	t1, t2 := NewMockPair()
	ctx, cancel := context.WithTimeout(context.Background(), 10*time.Second)
	defer cancel()
	senderConn, err := t1.Dial(ctx, "peer2")
	if err != nil {
		t.Fatal(err)
	}
	receiverConn, err := t2.Accept(ctx)
	if err != nil {
		t.Fatal(err)
	}

	var mu sync.Mutex
	got := make([]int, total+1)
	recvDone := make(chan error, 1)
	go func() {
		recvDone <- vScriptedReceiver(ctx, receiverConn, item, total, bitmap, V, claimed, fileIDEmpty, totalFieldZero, &mu, got)
	}()

	sendErr := SendManifestMultiStream(ctx, senderConn, srcDir, m, Options{ChunkSize: cs, ParallelFiles: 1, Resume: true, ResumeVerify: mode, HashAlg: alg, ResumeVerifyTail: tail})
	if sendErr != nil {
		fmt.Println("REPLAY-OUTCOME: ASSERT-FAILED: sender failed or hung: " + sendErr.Error())
		t.Fatalf("sender: %v", sendErr)
	}
	<-recvDone
	mu.Lock()
	defer mu.Unlock()

	fail := func(msg string) {
		fmt.Println("REPLAY-OUTCOME: ASSERT-FAILED: " + msg)
		t.Fatalf("%s (got=%v)", msg, got)
	}
	pop := 0
	bit := make([]bool, total)
	for i := 0; i < total; i++ {
		bit[i] = bitmap[i/8]&(1<<uint(i%8)) != 0
		if bit[i] {
			pop++
		}
	}
	allComplete := pop >= total
	hasV := V < uint32(total)
	effTail := uint64(tail)
	if tail == 0 {
		effTail = 1
	}
	for i := 0; i < total; i++ {
		sent := got[i] >= 1
		if !bit[i] && !sent {
			fail("a chunk the receiver does not have is sent")
		}
		inTail := hasV && !allComplete && uint64(V)+1 <= uint64(i)+uint64(tail)
		if inTail && !sent {
			fail("chunks inside the verification tail are sent again")
		}
		inUnknown := hashUnknown && uint64(total) <= uint64(i)+effTail
		if inUnknown && !sent {
			fail("with an unknown receiver hash the last chunks are sent again")
		}
		below := bit[i] && hasV && uint64(i)+uint64(tail) < uint64(V)+1 && !inUnknown
		belowComplete := bit[i] && hasV && allComplete && uint32(i) <= V && !inUnknown
		isResend := mismatch && uint32(i) == V
		if (below || belowComplete) && !isResend && got[i] != 0 {
			fail("a chunk reported present below the verification point is not sent")
		}
		if !(got[i] <= 1 || (got[i] == 2 && isResend)) {
			fail("a chunk is sent at most once plus the single verification re-send")
		}
		if mismatch && uint32(i) == V && !sent {
			fail("the chunk whose hash differs is sent (again)")
		}
	}
	fmt.Println("REPLAY-OUTCOME: OK")
}

func vScriptedReceiver(ctx context.Context, conn Conn, item manifest.FileItem, total int, bitmap []byte, V uint32, hash uint64, fileIDEmpty, totalFieldZero bool, mu *sync.Mutex, got []int) error {
	control, err := conn.AcceptStream(ctx)
	if err != nil {
		return err
	}
	if _, err := readControlHeader(control); err != nil {
		return err
	}
	var wmu sync.Mutex
	var data []Stream
	for {
		typ, msg, err := readControlMessage(control)
		if err != nil {
			return err
		}
		switch typ {
		case controlTypeDataStreams:
			n := int(msg.(DataStreams).Count)
			for i := 0; i < n; i++ {
				s, err := conn.AcceptStream(ctx)
				if err != nil {
					return err
				}
				data = append(data, s)
				go func(s Stream) {
					hdr := make([]byte, dataChunkHeaderLen)
					for {
						if _, err := io.ReadFull(s, hdr); err != nil {
							return
						}
						idx := binary.BigEndian.Uint32(hdr[8:12])
						ln := binary.BigEndian.Uint32(hdr[12:16])
						if _, err := io.CopyN(io.Discard, s, int64(ln)); err != nil {
							return
						}
						mu.Lock()
						if int(idx) < len(got) {
							got[idx]++
						}
						mu.Unlock()
					}
				}(s)
			}
		case controlTypeFileBegin:
		case controlTypeResumeRequest:
			req := msg.(ResumeRequest)
			info := FileResumeInfo{FileID: item.ID, StreamID: req.StreamID, TotalChunks: uint32(total), Bitmap: bitmap, LastVerifiedChunk: V, LastVerifiedHash: hash}
			if fileIDEmpty {
				info.FileID = ""
			}
			if totalFieldZero {
				info.TotalChunks = 0
			}
			wmu.Lock()
			err := writeFileResumeInfo(control, info)
			wmu.Unlock()
			if err != nil {
				return err
			}
		case controlTypeFileEnd:
			end := msg.(FileEnd)
			time.Sleep(50 * time.Millisecond) // let frames in flight arrive at the recorders
			wmu.Lock()
			err := writeFileDone(control, FileDone{StreamID: end.StreamID, OK: true})
			wmu.Unlock()
			if err != nil {
				return err
			}
		case controlTypeEnd:
			return nil
		}
	}
}
