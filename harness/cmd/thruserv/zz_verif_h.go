package main

import "time"

// C14 (limits part): connLimiter and tokenBucket, one-step induction from an arbitrary valid state
// plus short call sequences with a symbolic clock.

func H_C14_connlimiter() {
	l := &connLimiter{limit: vInt("limit"), inUse: vInt("inUse")}
	vAssume(l.limit >= 0)
	vAssume(l.inUse >= 0)
	vAssume(l.inUse < 1<<40)                    // far below the counter's width
	vAssume(l.limit == 0 || l.inUse <= l.limit) // representation invariant
	pre := l.inUse
	switch vChoice("op", 2) {
	case 0:
		ok := l.Acquire()
		if l.limit == 0 {
			vAssert(ok, "limit 0 means no limit")
		}
		if ok {
			vAssert(l.inUse == pre+1, "an admitted connection is counted")
		} else {
			vAssert(l.inUse == pre, "a refused connection is not counted")
			vAssert(pre >= l.limit, "refusal only at the limit")
		}
	default:
		l.Release()
		vAssert(l.inUse == pre-1 || (pre == 0 && l.inUse == 0), "release frees exactly one slot")
	}
	vAssert(l.inUse >= 0, "inUse never negative")
	vAssert(l.limit == 0 || l.inUse <= l.limit, "connections in use never exceed the limit")
	vCover("C14 connLimiter step")
}

func H_C14_bucket() {
	burst := vInt("burst")
	vAssume(burst >= 1)
	vAssume(burst <= 1<<20)
	rate := vF64("rate")
	vAssume(rate >= 0)
	vAssume(rate <= 1e6)
	tokens := vF64("tokens")
	vAssume(tokens >= 0)
	vAssume(tokens <= float64(burst))
	// the time since the previous request is an input (so that a counterexample can be replayed natively:
	// the engine's clock stands still, the native one advances by nanoseconds on top of it)
	back := vI64("elapsedNanos")
	vAssume(back >= 0)
	vAssume(back <= 3600*1000000000)
	b := &tokenBucket{tokens: tokens, last: time.Now().Add(-time.Duration(back)), rate: rate, burst: float64(burst)}
	ok := b.Allow()
	vAssert(b.tokens >= 0, "tokens never negative")
	vAssert(b.tokens <= b.burst, "tokens never exceed the burst")
	if ok {
		vAssert(b.tokens <= b.burst-1, "an admitted request costs one token")
		vCover("C14 bucket admit")
	} else {
		vCover("C14 bucket refuse")
	}
}

// no time passes (fixed clock): at most burst requests are admitted in a row
func H_C14_bucket_burst() {
	burst := 1 + vChoice("burstMinus1", 3)
	rates := []float64{0, 0.5, 1000}
	b := newTokenBucket(rates[vChoice("rate", 3)], burst)
	admitted := 0
	for i := 0; i < burst+2; i++ {
		if b.Allow() {
			admitted++
		}
	}
	vAssert(admitted == burst, "with no time passing exactly burst requests are admitted")
	vCover("C14 bucket burst")
}
