package main

// C08 order obligation: in the SSA control-flow graphs of the functions that set up a transfer
// connection, no path reaches a call that moves manifest or file bytes (or adopts an extra connection)
// without passing the "authenticateTransport(...) returned nil" edge. Decided as an SMT reachability
// query per function (Bool per block + Int level to rule out cycles); sat = a concrete block path.

import (
	"fmt"
	"go/ast"
	"go/token"
	"sort"
	"strings"

	"golang.org/x/tools/go/ssa"
)

type cfgOrderSpec struct {
	Fn       string   // function name as printed by go/ssa
	AuthCall string   // callee name suffix
	Targets  []string // callee name suffixes that need prior authentication
	AppendOf string   // non-empty: appends to a local slice whose name contains this are targets too
	LoopSources bool  // per-iteration connections: every loop header is a source as well
}

func calleeName(c *ssa.CallCommon) string {
	if f := c.StaticCallee(); f != nil {
		return f.String()
	}
	if c.IsInvoke() {
		return c.Method.Name()
	}
	return ""
}

func findFuncByString(prog *ssa.Program, name string) *ssa.Function {
	for _, p := range prog.AllPackages() {
		for _, m := range p.Members {
			switch x := m.(type) {
			case *ssa.Function:
				if x.String() == name {
					return x
				}
			case *ssa.Type:
				for _, t := range []interface{ String() string }{x.Type()} {
					_ = t
				}
			}
		}
	}
	// methods
	for fn := range ssautilAllFunctions(prog) {
		if fn.String() == name {
			return fn
		}
	}
	return nil
}

func checkCFGOrder(prog *ssa.Program, spec cfgOrderSpec, ev map[string]interface{}) (ok bool, inconclusive string, witness string) {
	fn := findFuncByString(prog, spec.Fn)
	if fn == nil || fn.Blocks == nil {
		return false, "function " + spec.Fn + " not found", ""
	}
	type edge struct{ from, to int }
	removed := map[edge]bool{}
	authCalls := 0
	targets := map[int]string{}
	for _, b := range fn.Blocks {
		for _, ins := range b.Instrs {
			var cc *ssa.CallCommon
			switch x := ins.(type) {
			case *ssa.Call:
				cc = &x.Call
			case *ssa.Go:
				cc = &x.Call
			case *ssa.Defer:
				cc = &x.Call
			}
			if cc == nil {
				continue
			}
			name := calleeName(cc)
			if strings.HasSuffix(name, spec.AuthCall) {
				call, isCall := ins.(*ssa.Call)
				if !isCall {
					continue
				}
				authCalls++
				// find "if call != nil" / "if call == nil" users
				for _, ref := range *call.Referrers() {
					bo, ok := ref.(*ssa.BinOp)
					if !ok || (bo.Op != token.NEQ && bo.Op != token.EQL) {
						continue
					}
					for _, r2 := range *bo.Referrers() {
						iff, ok := r2.(*ssa.If)
						if !ok {
							continue
						}
						blk := iff.Block()
						okSucc := blk.Succs[1] // NEQ nil: false edge is success
						if bo.Op == token.EQL {
							okSucc = blk.Succs[0]
						}
						removed[edge{blk.Index, okSucc.Index}] = true
					}
				}
				continue
			}
			for _, t := range spec.Targets {
				if strings.HasSuffix(name, t) {
					targets[b.Index] = name
				}
			}
			if spec.AppendOf != "" {
				if bi, ok := cc.Value.(*ssa.Builtin); ok && bi.Name() == "append" {
					if len(cc.Args) > 0 && strings.Contains(cc.Args[0].Name()+" "+valueComment(cc.Args[0]), spec.AppendOf) {
						targets[b.Index] = "append(" + spec.AppendOf + ")"
					}
				}
			}
		}
	}
	// blocks that call a function which never returns (os.Exit, or a closure all of whose returns
	// are dominated by os.Exit) have no successors
	for _, b := range fn.Blocks {
		for _, ins := range b.Instrs {
			if call, ok := ins.(*ssa.Call); ok && callNeverReturns(&call.Call) {
				for _, sc := range b.Succs {
					removed[edge{b.Index, sc.Index}] = true
				}
			}
		}
	}
	if authCalls == 0 {
		return false, "no call to " + spec.AuthCall + " in " + spec.Fn, ""
	}
	if len(removed) == 0 {
		return false, "result of " + spec.AuthCall + " is not tested against nil in " + spec.Fn, ""
	}
	if len(targets) == 0 {
		return false, "no guarded call found in " + spec.Fn + " (targets renamed?)", ""
	}
	// sources: entry and every loop header (a block with a back edge into it)
	sources := map[int]bool{0: true}
	for _, b := range fn.Blocks {
		if !spec.LoopSources {
			break
		}
		for _, s := range b.Succs {
			if s.Index <= b.Index && s.Dominates(b) {
				sources[s.Index] = true
			}
		}
	}
	var sb strings.Builder
	sb.WriteString("(set-logic ALL)\n")
	for _, b := range fn.Blocks {
		fmt.Fprintf(&sb, "(declare-const r%d Bool)\n(declare-const l%d Int)\n(declare-const s%d Bool)\n", b.Index, b.Index, b.Index)
	}
	for _, b := range fn.Blocks {
		var alts []string
		if sources[b.Index] {
			alts = append(alts, fmt.Sprintf("(and s%d (= l%d 0))", b.Index, b.Index))
		} else {
			fmt.Fprintf(&sb, "(assert (not s%d))\n", b.Index)
		}
		for _, p := range b.Preds {
			if removed[edge{p.Index, b.Index}] {
				continue
			}
			alts = append(alts, fmt.Sprintf("(and r%d (< l%d l%d))", p.Index, p.Index, b.Index))
		}
		if len(alts) == 0 {
			fmt.Fprintf(&sb, "(assert (not r%d))\n", b.Index)
		} else {
			fmt.Fprintf(&sb, "(assert (=> r%d (or %s false)))\n", b.Index, strings.Join(alts, " "))
		}
		fmt.Fprintf(&sb, "(assert (>= l%d 0))\n", b.Index)
	}
	var ts []string
	var tIdx []int
	for t := range targets {
		tIdx = append(tIdx, t)
	}
	sort.Ints(tIdx)
	for _, t := range tIdx {
		ts = append(ts, fmt.Sprintf("r%d", t))
	}
	fmt.Fprintf(&sb, "(assert (or %s false))\n(check-sat)\n", strings.Join(ts, " "))
	res := runOneShot("z3-new", sb.String(), 30000)
	ev["cfg:"+spec.Fn] = map[string]interface{}{"blocks": len(fn.Blocks), "auth_success_edges_removed": len(removed), "guarded_sites": len(targets), "sources": len(sources), "result": res}
	switch res {
	case "unsat":
		return true, "", ""
	case "sat":
		// independent confirmation: BFS over the same graph
		seen := map[int]int{}
		var q []int
		for s := range sources {
			seen[s] = -1
			q = append(q, s)
		}
		sort.Ints(q)
		hit := -1
		for len(q) > 0 && hit < 0 {
			b := q[0]
			q = q[1:]
			if _, ok := targets[b]; ok {
				hit = b
				break
			}
			for _, s := range fn.Blocks[b].Succs {
				if removed[edge{b, s.Index}] {
					continue
				}
				if _, ok := seen[s.Index]; !ok {
					seen[s.Index] = b
					q = append(q, s.Index)
				}
			}
		}
		if hit < 0 {
			return false, "solver says a path exists but graph search finds none (encoding error)", ""
		}
		var path []string
		for b := hit; b >= 0; b = seen[b] {
			pos := ""
			for _, ins := range fn.Blocks[b].Instrs {
				if ins.Pos().IsValid() {
					p := prog.Fset.Position(ins.Pos())
					pos = fmt.Sprintf("%s:%d", shortFile(p.Filename), p.Line)
					break
				}
			}
			path = append([]string{fmt.Sprintf("b%d(%s)", b, pos)}, path...)
		}
		return false, "", fmt.Sprintf("%s reaches %s without a successful %s: %s", spec.Fn, targets[hit], spec.AuthCall, strings.Join(path, " -> "))
	}
	return false, "solver " + res + " on CFG query of " + spec.Fn, ""
}

func valueComment(v ssa.Value) string {
	// try to recover the source name of a slice variable: load of an Alloc with a comment, or a phi with a comment
	switch x := v.(type) {
	case *ssa.UnOp:
		if a, ok := x.X.(*ssa.Alloc); ok {
			return a.Comment
		}
	case *ssa.Phi:
		return x.Comment
	case *ssa.Alloc:
		return x.Comment
	}
	return ""
}

func ssautilAllFunctions(prog *ssa.Program) map[*ssa.Function]bool {
	return ssautilAll(prog)
}


func callNeverReturns(cc *ssa.CallCommon) bool {
	var fn *ssa.Function
	if f := cc.StaticCallee(); f != nil {
		fn = f
	} else if mc, ok := cc.Value.(*ssa.MakeClosure); ok {
		fn, _ = mc.Fn.(*ssa.Function)
	}
	if fn == nil {
		return false
	}
	if fn.String() == "os.Exit" {
		return true
	}
	if fn.Blocks == nil {
		return false
	}
	exits := map[*ssa.BasicBlock]bool{}
	for _, b := range fn.Blocks {
		for _, ins := range b.Instrs {
			if c, ok := ins.(*ssa.Call); ok {
				if f := c.Call.StaticCallee(); f != nil && f.String() == "os.Exit" {
					exits[b] = true
				}
			}
		}
	}
	if len(exits) == 0 {
		return false
	}
	for _, b := range fn.Blocks {
		if len(b.Instrs) == 0 {
			continue
		}
		if _, isRet := b.Instrs[len(b.Instrs)-1].(*ssa.Return); !isRet {
			continue
		}
		dominated := false
		for e := range exits {
			if e.Dominates(b) {
				dominated = true
			}
		}
		if !dominated {
			return false
		}
	}
	return true
}

// checkMustPass: in fn's CFG, every path from a block satisfying src to a block satisfying target goes
// through a block satisfying must. Decided as SMT reachability on the graph with the must-blocks
// removed (sat = a concrete bypassing path). Block predicates are given over instructions.
func checkMustPass(prog *ssa.Program, fnName string, src, must, target func(ssa.Instruction) bool, ev map[string]interface{}, key string) (ok bool, inconclusive string, witness string) {
	fn := findFuncByString(prog, fnName)
	if fn == nil || fn.Blocks == nil {
		return false, "function " + fnName + " not found", ""
	}
	has := func(b *ssa.BasicBlock, p func(ssa.Instruction) bool) int {
		for i, ins := range b.Instrs {
			if p(ins) {
				return i
			}
		}
		return -1
	}
	var srcs, targets, musts []int
	for _, b := range fn.Blocks {
		si, mi, ti := has(b, src), has(b, must), has(b, target)
		if mi >= 0 {
			musts = append(musts, b.Index)
		}
		if si >= 0 {
			srcs = append(srcs, b.Index)
		}
		// a target in the same block after the must instruction is fine; before it is a bypass
		if ti >= 0 && !(mi >= 0 && mi < ti) {
			targets = append(targets, b.Index)
		}
	}
	if len(srcs) == 0 || len(musts) == 0 {
		return false, fmt.Sprintf("anchors not found in %s (sources %d, required steps %d)", fnName, len(srcs), len(musts)), ""
	}
	targetCount := 0
	for _, b := range fn.Blocks {
		if has(b, target) >= 0 {
			targetCount++
		}
	}
	if targetCount == 0 {
		return false, "no routing call found in " + fnName, ""
	}
	isMust := map[int]bool{}
	for _, m := range musts {
		isMust[m] = true
	}
	var sb strings.Builder
	sb.WriteString("(set-logic ALL)\n")
	for _, b := range fn.Blocks {
		fmt.Fprintf(&sb, "(declare-const r%d Bool)\n(declare-const l%d Int)\n", b.Index, b.Index)
	}
	isSrc := map[int]bool{}
	for _, s := range srcs {
		isSrc[s] = true
	}
	for _, b := range fn.Blocks {
		if isMust[b.Index] && !isSrc[b.Index] {
			fmt.Fprintf(&sb, "(assert (not r%d))\n", b.Index)
			continue
		}
		var alts []string
		if isSrc[b.Index] {
			alts = append(alts, fmt.Sprintf("(= l%d 0)", b.Index))
		}
		for _, p := range b.Preds {
			if isMust[p.Index] && !isSrc[p.Index] {
				continue
			}
			alts = append(alts, fmt.Sprintf("(and r%d (< l%d l%d))", p.Index, p.Index, b.Index))
		}
		fmt.Fprintf(&sb, "(assert (=> r%d (or %s false)))\n(assert (>= l%d 0))\n", b.Index, strings.Join(alts, " "), b.Index)
	}
	var ts []string
	for _, t := range targets {
		ts = append(ts, fmt.Sprintf("r%d", t))
	}
	fmt.Fprintf(&sb, "(assert (or %s false))\n(check-sat)\n", strings.Join(ts, " "))
	res := runOneShot("z3-new", sb.String(), 30000)
	ev[key] = map[string]interface{}{"blocks": len(fn.Blocks), "sources": len(srcs), "required_blocks": len(musts), "routing_blocks": targetCount, "bypass_candidates": len(targets), "result": res}
	switch res {
	case "unsat":
		return true, "", ""
	case "sat":
		return false, "", fmt.Sprintf("%s: a path from the decode of the envelope reaches a routing call without the required step (blocks %v)", fnName, targets)
	}
	return false, "solver " + res + " on must-pass query of " + fnName, ""
}


// debugName returns the source identifier a value is bound to (via DebugRef), if any.
func debugName(v ssa.Value) string {
	if v.Referrers() == nil {
		return ""
	}
	for _, r := range *v.Referrers() {
		if d, ok := r.(*ssa.DebugRef); ok {
			if id, ok := d.Expr.(*ast.Ident); ok {
				return id.Name
			}
		}
	}
	return ""
}
