package main

// Hash-consed SMT terms with constant folding. Bit-vectors (width <= 64), Bool, FP64.

import (
	"fmt"
	"math"
	"math/bits"
	"sort"
	"strconv"
	"strings"
)

type SortKind uint8

const (
	KBool SortKind = iota
	KBV
	KFP
)

type Sort struct {
	K SortKind
	W int
}

func (s Sort) String() string {
	switch s.K {
	case KBool:
		return "Bool"
	case KBV:
		return fmt.Sprintf("(_ BitVec %d)", s.W)
	default:
		return "(_ FloatingPoint 11 53)"
	}
}

var SBool = Sort{KBool, 0}
var SFP = Sort{KFP, 64}

func SBV(w int) Sort { return Sort{KBV, w} }

type Op uint8

const (
	OConst Op = iota
	OVar
	ONot
	OAnd
	OOr
	OIte
	OEq
	OBVAdd
	OBVSub
	OBVMul
	OBVUDiv
	OBVURem
	OBVSDiv
	OBVSRem
	OBVAnd
	OBVOr
	OBVXor
	OBVNot
	OBVNeg
	OBVShl
	OBVLshr
	OBVAshr
	OULT
	OULE
	OSLT
	OSLE
	OConcat
	OExtract
	OZExt
	OSExt
	OUF
	OFPAdd
	OFPSub
	OFPMul
	OFPDiv
	OFPNeg
	OFPLT
	OFPLE
	OFPEq
	OFPFromS
	OFPFromU
	OFPToS
	OFPToU
	OFPSqrt
	OFPFloor
	OFPFromBits
	OFPIsNaN
)

var opNames = map[Op]string{
	ONot: "not", OAnd: "and", OOr: "or", OIte: "ite", OEq: "=",
	OBVAdd: "bvadd", OBVSub: "bvsub", OBVMul: "bvmul", OBVUDiv: "bvudiv", OBVURem: "bvurem",
	OBVSDiv: "bvsdiv", OBVSRem: "bvsrem", OBVAnd: "bvand", OBVOr: "bvor", OBVXor: "bvxor",
	OBVNot: "bvnot", OBVNeg: "bvneg", OBVShl: "bvshl", OBVLshr: "bvlshr", OBVAshr: "bvashr",
	OULT: "bvult", OULE: "bvule", OSLT: "bvslt", OSLE: "bvsle", OConcat: "concat",
	OFPAdd: "fp.add RNE", OFPSub: "fp.sub RNE", OFPMul: "fp.mul RNE", OFPDiv: "fp.div RNE", OFPNeg: "fp.neg",
	OFPLT: "fp.lt", OFPLE: "fp.leq", OFPEq: "fp.eq", OFPSqrt: "fp.sqrt RNE", OFPFloor: "fp.roundToIntegral RTN",
	OFPIsNaN: "fp.isNaN",
}

type Term struct {
	Op   Op
	S    Sort
	Args []*Term
	V    uint64 // constant value (BV: masked; Bool: 0/1; FP: IEEE bits)
	Name string // var / UF name
	I, J int    // extract hi, lo; ext amount
	id   int
}

// Ctx owns a term table. Not safe for concurrent use: one per worker.
type Ctx struct {
	tab    map[string]*Term
	nextID int
	Vars   []*Term            // declared vars in creation order
	UFs    map[string]*UFDecl // uninterpreted functions
	ufList []string
	True   *Term
	False  *Term
}

type UFDecl struct {
	Name string
	Args []Sort
	Ret  Sort
}

func NewCtx() *Ctx {
	c := &Ctx{tab: map[string]*Term{}, UFs: map[string]*UFDecl{}}
	c.True = c.mk(&Term{Op: OConst, S: SBool, V: 1})
	c.False = c.mk(&Term{Op: OConst, S: SBool, V: 0})
	return c
}

func (c *Ctx) key(t *Term) string {
	b := make([]byte, 0, 48+len(t.Name))
	b = append(b, byte(t.Op), byte(t.S.K), byte(t.S.W))
	b = strconv.AppendUint(b, t.V, 36)
	b = append(b, '|')
	b = append(b, t.Name...)
	b = append(b, '|')
	b = strconv.AppendInt(b, int64(t.I), 36)
	b = append(b, '.')
	b = strconv.AppendInt(b, int64(t.J), 36)
	for _, a := range t.Args {
		b = append(b, '|')
		b = strconv.AppendInt(b, int64(a.id), 36)
	}
	return string(b)
}

func (c *Ctx) mk(t *Term) *Term {
	k := c.key(t)
	if e, ok := c.tab[k]; ok {
		return e
	}
	c.nextID++
	t.id = c.nextID
	c.tab[k] = t
	if t.Op == OVar {
		c.Vars = append(c.Vars, t)
	}
	return t
}

func mask(w int) uint64 {
	if w >= 64 {
		return ^uint64(0)
	}
	return (uint64(1) << uint(w)) - 1
}

func (t *Term) IsConst() bool { return t.Op == OConst }
func (t *Term) IsTrue() bool  { return t.Op == OConst && t.S.K == KBool && t.V == 1 }
func (t *Term) IsFalse() bool { return t.Op == OConst && t.S.K == KBool && t.V == 0 }

// signed value of a constant BV
func (t *Term) SVal() int64 { return sext(t.V, t.S.W) }

func sext(v uint64, w int) int64 {
	if w >= 64 {
		return int64(v)
	}
	if v&(uint64(1)<<uint(w-1)) != 0 {
		return int64(v | ^mask(w))
	}
	return int64(v)
}

func (c *Ctx) BV(v uint64, w int) *Term {
	return c.mk(&Term{Op: OConst, S: SBV(w), V: v & mask(w)})
}
func (c *Ctx) Bool(b bool) *Term {
	if b {
		return c.True
	}
	return c.False
}
func (c *Ctx) FPConst(f float64) *Term {
	return c.mk(&Term{Op: OConst, S: SFP, V: math.Float64bits(f)})
}
func (c *Ctx) Var(name string, s Sort) *Term {
	return c.mk(&Term{Op: OVar, S: s, Name: name})
}

func (c *Ctx) DeclareUF(name string, args []Sort, ret Sort) {
	if _, ok := c.UFs[name]; !ok {
		c.UFs[name] = &UFDecl{name, args, ret}
		c.ufList = append(c.ufList, name)
	}
}

func (c *Ctx) UF(name string, ret Sort, args ...*Term) *Term {
	as := make([]Sort, len(args))
	allConst := true
	for i, a := range args {
		as[i] = a.S
		if !a.IsConst() {
			allConst = false
		}
	}
	_ = allConst
	c.DeclareUF(name, as, ret)
	return c.mk(&Term{Op: OUF, S: ret, Name: name, Args: args})
}

func (c *Ctx) Not(a *Term) *Term {
	if a.IsConst() {
		return c.Bool(a.V == 0)
	}
	if a.Op == ONot {
		return a.Args[0]
	}
	return c.mk(&Term{Op: ONot, S: SBool, Args: []*Term{a}})
}

func (c *Ctx) And(as ...*Term) *Term {
	var out []*Term
	seen := map[int]bool{}
	for _, a := range as {
		if a.IsFalse() {
			return c.False
		}
		if a.IsTrue() {
			continue
		}
		if a.Op == OAnd {
			for _, b := range a.Args {
				if !seen[b.id] {
					seen[b.id] = true
					out = append(out, b)
				}
			}
			continue
		}
		if !seen[a.id] {
			seen[a.id] = true
			out = append(out, a)
		}
	}
	for _, a := range out {
		if a.Op == ONot && seen[a.Args[0].id] {
			return c.False
		}
	}
	if len(out) == 0 {
		return c.True
	}
	if len(out) == 1 {
		return out[0]
	}
	return c.mk(&Term{Op: OAnd, S: SBool, Args: out})
}

func (c *Ctx) Or(as ...*Term) *Term {
	var out []*Term
	seen := map[int]bool{}
	for _, a := range as {
		if a.IsTrue() {
			return c.True
		}
		if a.IsFalse() {
			continue
		}
		if a.Op == OOr {
			for _, b := range a.Args {
				if !seen[b.id] {
					seen[b.id] = true
					out = append(out, b)
				}
			}
			continue
		}
		if !seen[a.id] {
			seen[a.id] = true
			out = append(out, a)
		}
	}
	for _, a := range out {
		if a.Op == ONot && seen[a.Args[0].id] {
			return c.True
		}
	}
	if len(out) == 0 {
		return c.False
	}
	if len(out) == 1 {
		return out[0]
	}
	return c.mk(&Term{Op: OOr, S: SBool, Args: out})
}

func (c *Ctx) Implies(a, b *Term) *Term { return c.Or(c.Not(a), b) }

func (c *Ctx) Ite(cond, a, b *Term) *Term {
	if cond.IsTrue() {
		return a
	}
	if cond.IsFalse() {
		return b
	}
	if a == b {
		return a
	}
	if a.S != b.S {
		panic(fmt.Sprintf("ite sort mismatch %v %v", a.S, b.S))
	}
	if a.S.K == KBool {
		if a.IsTrue() && b.IsFalse() {
			return cond
		}
		if a.IsFalse() && b.IsTrue() {
			return c.Not(cond)
		}
		if a.IsTrue() {
			return c.Or(cond, b)
		}
		if a.IsFalse() {
			return c.And(c.Not(cond), b)
		}
		if b.IsTrue() {
			return c.Or(c.Not(cond), a)
		}
		if b.IsFalse() {
			return c.And(cond, a)
		}
	}
	return c.mk(&Term{Op: OIte, S: a.S, Args: []*Term{cond, a, b}})
}

func (c *Ctx) Eq(a, b *Term) *Term {
	if a == b {
		if a.S.K == KFP {
			// NaN != NaN for fp.eq; structural identity still needs the NaN check
			return c.Not(c.mk(&Term{Op: OFPIsNaN, S: SBool, Args: []*Term{a}}))
		}
		return c.True
	}
	if a.S != b.S {
		panic(fmt.Sprintf("eq sort mismatch %v %v", a.S, b.S))
	}
	if a.S.K == KFP {
		if a.IsConst() && b.IsConst() {
			return c.Bool(math.Float64frombits(a.V) == math.Float64frombits(b.V))
		}
		return c.mk(&Term{Op: OFPEq, S: SBool, Args: []*Term{a, b}})
	}
	if a.IsConst() && b.IsConst() {
		return c.Bool(a.V == b.V)
	}
	if a.S.K == KBool {
		if a.IsConst() {
			a, b = b, a
		}
		if b.IsTrue() {
			return a
		}
		if b.IsFalse() {
			return c.Not(a)
		}
	}
	// ite(c,k1,k2) == k  with constants
	if b.IsConst() && a.Op == OIte && a.Args[1].IsConst() && a.Args[2].IsConst() {
		return c.Ite(a.Args[0], c.Bool(a.Args[1].V == b.V), c.Bool(a.Args[2].V == b.V))
	}
	if a.IsConst() && b.Op == OIte && b.Args[1].IsConst() && b.Args[2].IsConst() {
		return c.Ite(b.Args[0], c.Bool(b.Args[1].V == a.V), c.Bool(b.Args[2].V == a.V))
	}
	// zext(x) == const
	if b.IsConst() && a.Op == OZExt {
		in := a.Args[0]
		if b.V > mask(in.S.W) {
			return c.False
		}
		return c.Eq(in, c.BV(b.V, in.S.W))
	}
	if a.IsConst() && b.Op == OZExt {
		return c.Eq(b, a)
	}
	if a.id > b.id {
		a, b = b, a
	}
	return c.mk(&Term{Op: OEq, S: SBool, Args: []*Term{a, b}})
}

func (c *Ctx) bin(op Op, a, b *Term) *Term {
	if a.S != b.S {
		panic(fmt.Sprintf("binop %v sort mismatch %v %v", opNames[op], a.S, b.S))
	}
	w := a.S.W
	if a.IsConst() && b.IsConst() {
		if v, ok := foldBV(op, a.V, b.V, w); ok {
			return c.BV(v, w)
		}
	}
	switch op {
	case OBVAdd:
		if a.IsConst() && a.V == 0 {
			return b
		}
		if b.IsConst() && b.V == 0 {
			return a
		}
		// (x + k1) + k2
		if b.IsConst() && a.Op == OBVAdd && a.Args[1].IsConst() {
			return c.bin(OBVAdd, a.Args[0], c.BV(a.Args[1].V+b.V, w))
		}
		if a.IsConst() {
			a, b = b, a
		}
	case OBVSub:
		if b.IsConst() && b.V == 0 {
			return a
		}
		if a == b {
			return c.BV(0, w)
		}
		if b.IsConst() {
			return c.bin(OBVAdd, a, c.BV(-b.V, w))
		}
	case OBVMul:
		if a.IsConst() {
			a, b = b, a
		}
		if b.IsConst() {
			if b.V == 0 {
				return b
			}
			if b.V == 1 {
				return a
			}
		}
	case OBVAnd:
		if a.IsConst() {
			a, b = b, a
		}
		if b.IsConst() {
			if b.V == 0 {
				return b
			}
			if b.V == mask(w) {
				return a
			}
		}
		if a == b {
			return a
		}
	case OBVOr:
		if a.IsConst() {
			a, b = b, a
		}
		if b.IsConst() {
			if b.V == 0 {
				return a
			}
			if b.V == mask(w) {
				return b
			}
		}
		if a == b {
			return a
		}
	case OBVXor:
		if a.IsConst() {
			a, b = b, a
		}
		if b.IsConst() && b.V == 0 {
			return a
		}
		if a == b {
			return c.BV(0, w)
		}
	case OBVShl, OBVLshr:
		if b.IsConst() {
			if b.V == 0 {
				return a
			}
			if b.V >= uint64(w) {
				return c.BV(0, w)
			}
		}
		if a.IsConst() && a.V == 0 {
			return a
		}
	case OBVAshr:
		if b.IsConst() && b.V == 0 {
			return a
		}
	case OBVUDiv, OBVSDiv:
		if b.IsConst() && b.V == 1 {
			return a
		}
		if op == OBVUDiv && b.IsConst() && b.V != 0 && b.V&(b.V-1) == 0 {
			return c.bin(OBVLshr, a, c.BV(uint64(bits.TrailingZeros64(b.V)), w))
		}
	case OBVURem:
		if b.IsConst() && b.V != 0 && b.V&(b.V-1) == 0 {
			return c.bin(OBVAnd, a, c.BV(b.V-1, w))
		}
	}
	return c.mk(&Term{Op: op, S: a.S, Args: []*Term{a, b}})
}

func foldBV(op Op, x, y uint64, w int) (uint64, bool) {
	m := mask(w)
	sx, sy := sext(x, w), sext(y, w)
	switch op {
	case OBVAdd:
		return (x + y) & m, true
	case OBVSub:
		return (x - y) & m, true
	case OBVMul:
		return (x * y) & m, true
	case OBVUDiv:
		if y == 0 {
			return m, true
		}
		return x / y, true
	case OBVURem:
		if y == 0 {
			return x, true
		}
		return x % y, true
	case OBVSDiv:
		if y == 0 {
			if sx < 0 {
				return 1, true
			}
			return m, true
		}
		if sx == math.MinInt64 && sy == -1 {
			return x, true
		}
		return uint64(sx/sy) & m, true
	case OBVSRem:
		if y == 0 {
			return x, true
		}
		if sy == -1 {
			return 0, true
		}
		return uint64(sx%sy) & m, true
	case OBVAnd:
		return x & y, true
	case OBVOr:
		return x | y, true
	case OBVXor:
		return x ^ y, true
	case OBVShl:
		if y >= uint64(w) {
			return 0, true
		}
		return (x << y) & m, true
	case OBVLshr:
		if y >= uint64(w) {
			return 0, true
		}
		return x >> y, true
	case OBVAshr:
		if y >= uint64(w) {
			if sx < 0 {
				return m, true
			}
			return 0, true
		}
		return uint64(sx>>y) & m, true
	}
	return 0, false
}

func (c *Ctx) Add(a, b *Term) *Term  { return c.bin(OBVAdd, a, b) }
func (c *Ctx) Sub(a, b *Term) *Term  { return c.bin(OBVSub, a, b) }
func (c *Ctx) Mul(a, b *Term) *Term  { return c.bin(OBVMul, a, b) }
func (c *Ctx) UDiv(a, b *Term) *Term { return c.bin(OBVUDiv, a, b) }
func (c *Ctx) URem(a, b *Term) *Term { return c.bin(OBVURem, a, b) }
func (c *Ctx) SDiv(a, b *Term) *Term { return c.bin(OBVSDiv, a, b) }
func (c *Ctx) SRem(a, b *Term) *Term { return c.bin(OBVSRem, a, b) }
func (c *Ctx) BAnd(a, b *Term) *Term { return c.bin(OBVAnd, a, b) }
func (c *Ctx) BOr(a, b *Term) *Term  { return c.bin(OBVOr, a, b) }
func (c *Ctx) BXor(a, b *Term) *Term { return c.bin(OBVXor, a, b) }
func (c *Ctx) Shl(a, b *Term) *Term  { return c.bin(OBVShl, a, b) }
func (c *Ctx) Lshr(a, b *Term) *Term { return c.bin(OBVLshr, a, b) }
func (c *Ctx) Ashr(a, b *Term) *Term { return c.bin(OBVAshr, a, b) }

func (c *Ctx) BNot(a *Term) *Term {
	if a.IsConst() {
		return c.BV(^a.V, a.S.W)
	}
	if a.Op == OBVNot {
		return a.Args[0]
	}
	return c.mk(&Term{Op: OBVNot, S: a.S, Args: []*Term{a}})
}
func (c *Ctx) Neg(a *Term) *Term {
	if a.IsConst() {
		return c.BV(-a.V, a.S.W)
	}
	return c.mk(&Term{Op: OBVNeg, S: a.S, Args: []*Term{a}})
}

func (c *Ctx) cmp(op Op, a, b *Term) *Term {
	if a.S != b.S {
		panic(fmt.Sprintf("cmp sort mismatch %v %v", a.S, b.S))
	}
	w := a.S.W
	if a.IsConst() && b.IsConst() {
		switch op {
		case OULT:
			return c.Bool(a.V < b.V)
		case OULE:
			return c.Bool(a.V <= b.V)
		case OSLT:
			return c.Bool(sext(a.V, w) < sext(b.V, w))
		case OSLE:
			return c.Bool(sext(a.V, w) <= sext(b.V, w))
		}
	}
	if a == b {
		return c.Bool(op == OULE || op == OSLE)
	}
	// cheap unsigned range reasoning against constants
	if op == OULT || op == OULE {
		if b.IsConst() {
			ub := c.ubound(a, 6)
			if (op == OULT && ub < b.V) || (op == OULE && ub <= b.V) {
				return c.True
			}
		}
		if a.IsConst() {
			ub := c.ubound(b, 6)
			if (op == OULT && ub <= a.V) || (op == OULE && ub < a.V) {
				return c.False
			}
		}
	}
	switch op {
	case OULT:
		if b.IsConst() && b.V == 0 {
			return c.False
		}
		if a.IsConst() && a.V == mask(w) {
			return c.False
		}
	case OULE:
		if a.IsConst() && a.V == 0 {
			return c.True
		}
		if b.IsConst() && b.V == mask(w) {
			return c.True
		}
	}
	// comparisons of zero-extended values against constants: decide on range
	if (op == OULT || op == OULE || op == OSLT || op == OSLE) && a.Op == OZExt && b.IsConst() {
		in := a.Args[0]
		bv := b.V
		neg := (op == OSLT || op == OSLE) && sext(bv, w) < 0
		if neg {
			return c.False
		}
		if bv > mask(in.S.W) {
			return c.True
		}
		nop := op
		if op == OSLT {
			nop = OULT
		} else if op == OSLE {
			nop = OULE
		}
		return c.cmp(nop, in, c.BV(bv, in.S.W))
	}
	if (op == OULT || op == OULE || op == OSLT || op == OSLE) && b.Op == OZExt && a.IsConst() {
		in := b.Args[0]
		av := a.V
		neg := (op == OSLT || op == OSLE) && sext(av, w) < 0
		if neg {
			return c.True
		}
		if av > mask(in.S.W) {
			return c.False
		}
		nop := op
		if op == OSLT {
			nop = OULT
		} else if op == OSLE {
			nop = OULE
		}
		return c.cmp(nop, c.BV(av, in.S.W), in)
	}
	return c.mk(&Term{Op: op, S: SBool, Args: []*Term{a, b}})
}

// ubound returns an upper bound of the unsigned value of t.
func (c *Ctx) ubound(t *Term, depth int) uint64 {
	m := mask(t.S.W)
	if t.IsConst() {
		return t.V
	}
	if depth == 0 {
		return m
	}
	switch t.Op {
	case OZExt:
		return c.ubound(t.Args[0], depth-1)
	case OBVAnd:
		x, y := c.ubound(t.Args[0], depth-1), c.ubound(t.Args[1], depth-1)
		if x < y {
			return x
		}
		return y
	case OBVURem:
		if t.Args[1].IsConst() && t.Args[1].V > 0 {
			return t.Args[1].V - 1
		}
	case OBVLshr:
		if t.Args[1].IsConst() && t.Args[1].V < 64 {
			return c.ubound(t.Args[0], depth-1) >> t.Args[1].V
		}
	case OIte:
		x, y := c.ubound(t.Args[1], depth-1), c.ubound(t.Args[2], depth-1)
		if x > y {
			return x
		}
		return y
	case OExtract:
		ub := c.ubound(t.Args[0], depth-1)
		if t.J == 0 && ub <= m {
			return ub
		}
	}
	return m
}

func (c *Ctx) ULT(a, b *Term) *Term { return c.cmp(OULT, a, b) }
func (c *Ctx) ULE(a, b *Term) *Term { return c.cmp(OULE, a, b) }
func (c *Ctx) SLT(a, b *Term) *Term { return c.cmp(OSLT, a, b) }
func (c *Ctx) SLE(a, b *Term) *Term { return c.cmp(OSLE, a, b) }

func (c *Ctx) Extract(a *Term, hi, lo int) *Term {
	if lo == 0 && hi == a.S.W-1 {
		return a
	}
	w := hi - lo + 1
	if a.IsConst() {
		return c.BV(a.V>>uint(lo), w)
	}
	switch a.Op {
	case OZExt, OSExt:
		in := a.Args[0]
		if hi < in.S.W {
			return c.Extract(in, hi, lo)
		}
		if a.Op == OZExt && lo >= in.S.W {
			return c.BV(0, w)
		}
	case OConcat:
		lw := a.Args[1].S.W
		if hi < lw {
			return c.Extract(a.Args[1], hi, lo)
		}
		if lo >= lw {
			return c.Extract(a.Args[0], hi-lw, lo-lw)
		}
	case OExtract:
		return c.Extract(a.Args[0], hi+a.J, lo+a.J)
	case OBVLshr:
		// extract(x >> k, hi, lo) = extract(x, hi+k, lo+k) when in range
		if a.Args[1].IsConst() {
			k := int(a.Args[1].V)
			if hi+k < a.S.W {
				return c.Extract(a.Args[0], hi+k, lo+k)
			}
		}
	case OBVShl:
		if a.Args[1].IsConst() {
			k := int(a.Args[1].V)
			if lo >= k {
				return c.Extract(a.Args[0], hi-k, lo-k)
			}
			if hi < k {
				return c.BV(0, w)
			}
		}
	case OBVOr, OBVAnd, OBVXor:
		// distribute over bitwise ops when it enables folding (byte assembly)
		if w <= 16 {
			x := c.Extract(a.Args[0], hi, lo)
			y := c.Extract(a.Args[1], hi, lo)
			if x.IsConst() || y.IsConst() {
				return c.bin(a.Op, x, y)
			}
		}
	}
	return c.mk(&Term{Op: OExtract, S: SBV(w), Args: []*Term{a}, I: hi, J: lo})
}

func (c *Ctx) ZExt(a *Term, w int) *Term {
	if w == a.S.W {
		return a
	}
	if w < a.S.W {
		return c.Extract(a, w-1, 0)
	}
	if a.IsConst() {
		return c.BV(a.V, w)
	}
	if a.Op == OZExt {
		return c.ZExt(a.Args[0], w)
	}
	return c.mk(&Term{Op: OZExt, S: SBV(w), Args: []*Term{a}, I: w - a.S.W})
}

func (c *Ctx) SExt(a *Term, w int) *Term {
	if w == a.S.W {
		return a
	}
	if w < a.S.W {
		return c.Extract(a, w-1, 0)
	}
	if a.IsConst() {
		return c.BV(uint64(sext(a.V, a.S.W)), w)
	}
	if a.Op == OZExt {
		return c.ZExt(a.Args[0], w)
	}
	return c.mk(&Term{Op: OSExt, S: SBV(w), Args: []*Term{a}, I: w - a.S.W})
}

func (c *Ctx) Concat(hi, lo *Term) *Term {
	w := hi.S.W + lo.S.W
	if hi.IsConst() && lo.IsConst() && w <= 64 {
		return c.BV(hi.V<<uint(lo.S.W)|lo.V, w)
	}
	return c.mk(&Term{Op: OConcat, S: SBV(w), Args: []*Term{hi, lo}})
}

// Floating point
func (c *Ctx) fp2(op Op, a, b *Term) *Term {
	if a.IsConst() && b.IsConst() {
		x, y := math.Float64frombits(a.V), math.Float64frombits(b.V)
		switch op {
		case OFPAdd:
			return c.FPConst(x + y)
		case OFPSub:
			return c.FPConst(x - y)
		case OFPMul:
			return c.FPConst(x * y)
		case OFPDiv:
			return c.FPConst(x / y)
		}
	}
	return c.mk(&Term{Op: op, S: SFP, Args: []*Term{a, b}})
}
func (c *Ctx) fpcmp(op Op, a, b *Term) *Term {
	if a.IsConst() && b.IsConst() {
		x, y := math.Float64frombits(a.V), math.Float64frombits(b.V)
		switch op {
		case OFPLT:
			return c.Bool(x < y)
		case OFPLE:
			return c.Bool(x <= y)
		case OFPEq:
			return c.Bool(x == y)
		}
	}
	return c.mk(&Term{Op: op, S: SBool, Args: []*Term{a, b}})
}
func (c *Ctx) fp1(op Op, a *Term) *Term {
	if a.IsConst() {
		x := math.Float64frombits(a.V)
		switch op {
		case OFPNeg:
			return c.FPConst(-x)
		case OFPSqrt:
			return c.FPConst(math.Sqrt(x))
		case OFPFloor:
			return c.FPConst(math.Floor(x))
		case OFPIsNaN:
			return c.Bool(math.IsNaN(x))
		}
	}
	s := SFP
	if op == OFPIsNaN {
		s = SBool
	}
	return c.mk(&Term{Op: op, S: s, Args: []*Term{a}})
}
func (c *Ctx) FPFromInt(a *Term, signed bool) *Term {
	if a.IsConst() {
		if signed {
			return c.FPConst(float64(sext(a.V, a.S.W)))
		}
		return c.FPConst(float64(a.V))
	}
	op := OFPFromU
	if signed {
		op = OFPFromS
	}
	return c.mk(&Term{Op: op, S: SFP, Args: []*Term{a}})
}
func (c *Ctx) FPToInt(a *Term, w int, signed bool) *Term {
	if a.IsConst() {
		x := math.Float64frombits(a.V)
		if !math.IsNaN(x) && !math.IsInf(x, 0) && math.Abs(x) < 9e18 {
			if signed {
				return c.BV(uint64(int64(x)), w)
			}
			if x >= 0 {
				return c.BV(uint64(x), w)
			}
		}
	}
	op := OFPToU
	if signed {
		op = OFPToS
	}
	return c.mk(&Term{Op: op, S: SBV(w), Args: []*Term{a}, I: w})
}

// ---------------------------------------------------------------------------------------
// Evaluation under an assignment (var name -> value bits). Missing vars evaluate to 0.

type Model map[string]uint64

func (c *Ctx) Eval(t *Term, m Model, ufEval func(name string, args []uint64) uint64) uint64 {
	memo := map[int]uint64{}
	var ev func(t *Term) uint64
	ev = func(t *Term) uint64 {
		if v, ok := memo[t.id]; ok {
			return v
		}
		var r uint64
		w := t.S.W
		switch t.Op {
		case OConst:
			r = t.V
		case OVar:
			r = m[t.Name]
			if t.S.K == KBV {
				r &= mask(w)
			}
		case ONot:
			r = 1 - ev(t.Args[0])
		case OAnd:
			r = 1
			for _, a := range t.Args {
				if ev(a) == 0 {
					r = 0
					break
				}
			}
		case OOr:
			r = 0
			for _, a := range t.Args {
				if ev(a) == 1 {
					r = 1
					break
				}
			}
		case OIte:
			if ev(t.Args[0]) == 1 {
				r = ev(t.Args[1])
			} else {
				r = ev(t.Args[2])
			}
		case OEq:
			if ev(t.Args[0]) == ev(t.Args[1]) {
				r = 1
			}
		case OBVAdd, OBVSub, OBVMul, OBVUDiv, OBVURem, OBVSDiv, OBVSRem, OBVAnd, OBVOr, OBVXor, OBVShl, OBVLshr, OBVAshr:
			r, _ = foldBV(t.Op, ev(t.Args[0]), ev(t.Args[1]), w)
		case OBVNot:
			r = ^ev(t.Args[0]) & mask(w)
		case OBVNeg:
			r = -ev(t.Args[0]) & mask(w)
		case OULT:
			if ev(t.Args[0]) < ev(t.Args[1]) {
				r = 1
			}
		case OULE:
			if ev(t.Args[0]) <= ev(t.Args[1]) {
				r = 1
			}
		case OSLT:
			aw := t.Args[0].S.W
			if sext(ev(t.Args[0]), aw) < sext(ev(t.Args[1]), aw) {
				r = 1
			}
		case OSLE:
			aw := t.Args[0].S.W
			if sext(ev(t.Args[0]), aw) <= sext(ev(t.Args[1]), aw) {
				r = 1
			}
		case OConcat:
			r = ev(t.Args[0])<<uint(t.Args[1].S.W) | ev(t.Args[1])
		case OExtract:
			r = (ev(t.Args[0]) >> uint(t.J)) & mask(w)
		case OZExt:
			r = ev(t.Args[0])
		case OSExt:
			r = uint64(sext(ev(t.Args[0]), t.Args[0].S.W)) & mask(w)
		case OUF:
			args := make([]uint64, len(t.Args))
			for i, a := range t.Args {
				args[i] = ev(a)
			}
			if ufEval != nil {
				r = ufEval(t.Name, args)
			}
			if t.S.K == KBV {
				r &= mask(w)
			}
		case OFPAdd, OFPSub, OFPMul, OFPDiv:
			x, y := math.Float64frombits(ev(t.Args[0])), math.Float64frombits(ev(t.Args[1]))
			var z float64
			switch t.Op {
			case OFPAdd:
				z = x + y
			case OFPSub:
				z = x - y
			case OFPMul:
				z = x * y
			case OFPDiv:
				z = x / y
			}
			r = math.Float64bits(z)
		case OFPNeg:
			r = math.Float64bits(-math.Float64frombits(ev(t.Args[0])))
		case OFPSqrt:
			r = math.Float64bits(math.Sqrt(math.Float64frombits(ev(t.Args[0]))))
		case OFPFloor:
			r = math.Float64bits(math.Floor(math.Float64frombits(ev(t.Args[0]))))
		case OFPIsNaN:
			if math.IsNaN(math.Float64frombits(ev(t.Args[0]))) {
				r = 1
			}
		case OFPLT, OFPLE, OFPEq:
			x, y := math.Float64frombits(ev(t.Args[0])), math.Float64frombits(ev(t.Args[1]))
			b := false
			switch t.Op {
			case OFPLT:
				b = x < y
			case OFPLE:
				b = x <= y
			case OFPEq:
				b = x == y
			}
			if b {
				r = 1
			}
		case OFPFromS:
			r = math.Float64bits(float64(sext(ev(t.Args[0]), t.Args[0].S.W)))
		case OFPFromU:
			r = math.Float64bits(float64(ev(t.Args[0])))
		case OFPToS:
			r = uint64(int64(math.Float64frombits(ev(t.Args[0])))) & mask(w)
		case OFPToU:
			r = uint64(math.Float64frombits(ev(t.Args[0]))) & mask(w)
		case OFPFromBits:
			r = ev(t.Args[0])
		default:
			panic(fmt.Sprintf("eval: op %d", t.Op))
		}
		memo[t.id] = r
		return r
	}
	return ev(t)
}

// ---------------------------------------------------------------------------------------
// SMT-LIB printing (BV mode). Each session tracks which nodes were already defined.

type Emitter struct {
	c       *Ctx
	defined map[int]string
	declV   map[string]bool
	declUF  map[string]bool
	out     *strings.Builder
	intMode bool // Int-with-wrap encoding of bit-vectors
	NodeCnt int
}

func NewEmitter(c *Ctx, intMode bool) *Emitter {
	return &Emitter{c: c, defined: map[int]string{}, declV: map[string]bool{}, declUF: map[string]bool{}, out: &strings.Builder{}, intMode: intMode}
}

func smtName(n string) string {
	ok := true
	for _, r := range n {
		if !(r >= 'a' && r <= 'z' || r >= 'A' && r <= 'Z' || r >= '0' && r <= '9' || r == '_' || r == '.') {
			ok = false
		}
	}
	if ok && n != "" && !(n[0] >= '0' && n[0] <= '9') {
		return n
	}
	return "|" + strings.ReplaceAll(strings.ReplaceAll(n, "|", "!"), "\\", "!") + "|"
}

func (e *Emitter) sortStr(s Sort) string {
	if e.intMode && s.K == KBV {
		return "Int"
	}
	return s.String()
}

func bvLit(v uint64, w int) string {
	if w%4 == 0 {
		return fmt.Sprintf("#x%0*x", w/4, v)
	}
	return fmt.Sprintf("#b%0*b", w, v)
}

func pow2(w int) string {
	if w < 64 {
		return fmt.Sprintf("%d", uint64(1)<<uint(w))
	}
	return "18446744073709551616"
}

// Take returns and clears pending definition text.
func (e *Emitter) Take() string {
	s := e.out.String()
	e.out.Reset()
	return s
}

// Ref makes sure t (and all sub-terms) are defined and returns an SMT expression naming it.
func (e *Emitter) Ref(t *Term) string {
	if n, ok := e.defined[t.id]; ok {
		return n
	}
	var s string
	switch t.Op {
	case OConst:
		switch t.S.K {
		case KBool:
			if t.V == 1 {
				s = "true"
			} else {
				s = "false"
			}
		case KBV:
			if e.intMode {
				s = fmt.Sprintf("%d", t.V)
			} else {
				s = bvLit(t.V, t.S.W)
			}
		case KFP:
			s = fmt.Sprintf("((_ to_fp 11 53) #x%016x)", t.V)
		}
		e.defined[t.id] = s
		return s
	case OVar:
		n := smtName(t.Name)
		if !e.declV[t.Name] {
			e.declV[t.Name] = true
			fmt.Fprintf(e.out, "(declare-const %s %s)\n", n, e.sortStr(t.S))
			if e.intMode && t.S.K == KBV {
				fmt.Fprintf(e.out, "(assert (and (<= 0 %s) (< %s %s)))\n", n, n, pow2(t.S.W))
			}
		}
		e.defined[t.id] = n
		return n
	}
	args := make([]string, len(t.Args))
	for i, a := range t.Args {
		args[i] = e.Ref(a)
	}
	var body string
	if e.intMode {
		body = e.intBody(t, args)
	} else {
		body = e.bvBody(t, args)
	}
	e.NodeCnt++
	name := fmt.Sprintf("t%d", t.id)
	fmt.Fprintf(e.out, "(define-fun %s () %s %s)\n", name, e.sortStr(t.S), body)
	e.defined[t.id] = name
	return name
}

func (e *Emitter) declUFn(t *Term) {
	if e.declUF[t.Name] {
		return
	}
	e.declUF[t.Name] = true
	d := e.c.UFs[t.Name]
	as := make([]string, len(d.Args))
	for i, a := range d.Args {
		as[i] = e.sortStr(a)
	}
	fmt.Fprintf(e.out, "(declare-fun %s (%s) %s)\n", smtName(t.Name), strings.Join(as, " "), e.sortStr(d.Ret))
}

func (e *Emitter) bvBody(t *Term, a []string) string {
	switch t.Op {
	case OExtract:
		return fmt.Sprintf("((_ extract %d %d) %s)", t.I, t.J, a[0])
	case OZExt:
		return fmt.Sprintf("((_ zero_extend %d) %s)", t.I, a[0])
	case OSExt:
		return fmt.Sprintf("((_ sign_extend %d) %s)", t.I, a[0])
	case OUF:
		e.declUFn(t)
		if len(a) == 0 {
			return smtName(t.Name)
		}
		return fmt.Sprintf("(%s %s)", smtName(t.Name), strings.Join(a, " "))
	case OFPFromS:
		return fmt.Sprintf("((_ to_fp 11 53) RNE %s)", a[0])
	case OFPFromU:
		return fmt.Sprintf("((_ to_fp_unsigned 11 53) RNE %s)", a[0])
	case OFPToS:
		return fmt.Sprintf("((_ fp.to_sbv %d) RTZ %s)", t.I, a[0])
	case OFPToU:
		return fmt.Sprintf("((_ fp.to_ubv %d) RTZ %s)", t.I, a[0])
	case OFPFromBits:
		return fmt.Sprintf("((_ to_fp 11 53) %s)", a[0])
	}
	n, ok := opNames[t.Op]
	if !ok {
		panic(fmt.Sprintf("emit: op %d", t.Op))
	}
	return fmt.Sprintf("(%s %s)", n, strings.Join(a, " "))
}

// Int-with-wrap: every BV term is an Int in [0, 2^w).
func (e *Emitter) intBody(t *Term, a []string) string {
	w := t.S.W
	P := pow2(w)
	toS := func(x string, w int) string {
		return fmt.Sprintf("(ite (>= %s %s) (- %s %s) %s)", x, pow2(w-1), x, pow2(w), x)
	}
	wrap := func(x string) string { return fmt.Sprintf("(mod %s %s)", x, P) }
	switch t.Op {
	case ONot, OAnd, OOr, OIte, OEq:
		return fmt.Sprintf("(%s %s)", opNames[t.Op], strings.Join(a, " "))
	case OBVAdd:
		return wrap(fmt.Sprintf("(+ %s %s)", a[0], a[1]))
	case OBVSub:
		return wrap(fmt.Sprintf("(- %s %s)", a[0], a[1]))
	case OBVMul:
		return wrap(fmt.Sprintf("(* %s %s)", a[0], a[1]))
	case OBVNeg:
		return wrap(fmt.Sprintf("(- %s)", a[0]))
	case OBVUDiv:
		return fmt.Sprintf("(ite (= %s 0) %s (div %s %s))", a[1], fmt.Sprintf("(- %s 1)", P), a[0], a[1])
	case OBVURem:
		return fmt.Sprintf("(ite (= %s 0) %s (mod %s %s))", a[1], a[0], a[0], a[1])
	case OBVSDiv:
		// truncated division on the signed interpretations, wrapped
		x, y := toS(a[0], w), toS(a[1], w)
		q := fmt.Sprintf("(let ((x %s) (y %s)) (ite (= y 0) (ite (< x 0) 1 (- 1)) (ite (>= x 0) (ite (> y 0) (div x y) (- (div x (- y)))) (ite (> y 0) (- (div (- x) y)) (div (- x) (- y))))))", x, y)
		return wrap(q)
	case OBVSRem:
		x, y := toS(a[0], w), toS(a[1], w)
		q := fmt.Sprintf("(let ((x %s) (y %s)) (ite (= y 0) x (ite (>= x 0) (mod x (abs y)) (- (mod (- x) (abs y))))))", x, y)
		return wrap(q)
	case OULT:
		return fmt.Sprintf("(< %s %s)", a[0], a[1])
	case OULE:
		return fmt.Sprintf("(<= %s %s)", a[0], a[1])
	case OSLT:
		aw := t.Args[0].S.W
		return fmt.Sprintf("(< %s %s)", toS(a[0], aw), toS(a[1], aw))
	case OSLE:
		aw := t.Args[0].S.W
		return fmt.Sprintf("(<= %s %s)", toS(a[0], aw), toS(a[1], aw))
	case OZExt:
		return a[0]
	case OSExt:
		iw := t.Args[0].S.W
		return fmt.Sprintf("(ite (>= %s %s) (+ %s %s) %s)", a[0], pow2(iw-1), a[0], fmt.Sprintf("(- %s %s)", P, pow2(iw)), a[0])
	case OExtract:
		if t.J == 0 {
			return fmt.Sprintf("(mod %s %s)", a[0], P)
		}
		return fmt.Sprintf("(mod (div %s %s) %s)", a[0], pow2(t.J), P)
	case OConcat:
		return fmt.Sprintf("(+ (* %s %s) %s)", a[0], pow2(t.Args[1].S.W), a[1])
	case OBVShl:
		if t.Args[1].IsConst() {
			return wrap(fmt.Sprintf("(* %s %s)", a[0], pow2(int(t.Args[1].V))))
		}
	case OBVLshr:
		if t.Args[1].IsConst() {
			return fmt.Sprintf("(div %s %s)", a[0], pow2(int(t.Args[1].V)))
		}
	case OBVAnd:
		if t.Args[1].IsConst() && bits.OnesCount64(t.Args[1].V+1) == 1 {
			return fmt.Sprintf("(mod %s %d)", a[0], t.Args[1].V+1)
		}
	case OUF:
		e.declUFn(t)
		if len(a) == 0 {
			return smtName(t.Name)
		}
		return fmt.Sprintf("(%s %s)", smtName(t.Name), strings.Join(a, " "))
	}
	panic(errIntMode{fmt.Sprintf("op %s not expressible in Int-with-wrap mode", opNames[t.Op])})
}

type errIntMode struct{ msg string }

// Size returns the number of distinct nodes in t.
func (c *Ctx) Size(t *Term) int {
	seen := map[int]bool{}
	var walk func(t *Term)
	walk = func(t *Term) {
		if seen[t.id] {
			return
		}
		seen[t.id] = true
		for _, a := range t.Args {
			walk(a)
		}
	}
	walk(t)
	return len(seen)
}

// FreeVars lists variable names in t, sorted.
func (c *Ctx) FreeVars(ts ...*Term) []*Term {
	seen := map[int]bool{}
	var out []*Term
	var walk func(t *Term)
	walk = func(t *Term) {
		if seen[t.id] {
			return
		}
		seen[t.id] = true
		if t.Op == OVar {
			out = append(out, t)
		}
		for _, a := range t.Args {
			walk(a)
		}
	}
	for _, t := range ts {
		walk(t)
	}
	sort.Slice(out, func(i, j int) bool { return out[i].id < out[j].id })
	return out
}

func (t *Term) String() string {
	switch t.Op {
	case OConst:
		if t.S.K == KBool {
			return fmt.Sprintf("%v", t.V == 1)
		}
		if t.S.K == KFP {
			return fmt.Sprintf("%g", math.Float64frombits(t.V))
		}
		return fmt.Sprintf("%d:%d", t.V, t.S.W)
	case OVar:
		return t.Name
	}
	n := opNames[t.Op]
	if n == "" {
		n = fmt.Sprintf("op%d", t.Op)
	}
	if t.Op == OUF {
		n = t.Name
	}
	if t.Op == OExtract {
		n = fmt.Sprintf("extract[%d:%d]", t.I, t.J)
	}
	var as []string
	for i, a := range t.Args {
		if i > 3 {
			as = append(as, "…")
			break
		}
		s := a.String()
		if len(s) > 60 {
			s = s[:60] + "…"
		}
		as = append(as, s)
	}
	return fmt.Sprintf("(%s %s)", n, strings.Join(as, " "))
}
