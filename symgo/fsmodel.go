package main

// Filesystem model: map cleaned path -> node, with an effect log of every mutating call.
// Paths are strings with possibly symbolic bytes; lookups compare symbolically (forking).

import (
	"fmt"
	"go/types"
	"sort"
	"strings"

	"golang.org/x/tools/go/ssa"
)

type FSNode struct {
	path    *StrV
	dir     bool
	data    []*Term
	removed bool
	mode    uint64
	link    string // symbolic link: absolute concrete target path ("" for files and directories)
}

type FSEffect struct {
	Kind  string // mkdir, create, write, rename, remove, removeall, truncate, read, open
	Path  *StrV
	Path2 *StrV
	Off   *Term
	Data  []*Term
	Site  string
	Seq   int
	Mut   bool
}

type FSFile struct {
	node   *FSNode
	pos    int
	closed bool
	path   *StrV
	write  bool
}

type FSModel struct {
	own    map[string]bool
	nodes  []*FSNode
	log    []FSEffect
	files  map[*Cell]*FSFile
	faults bool // every call may fail with a symbolic error
	tmpSeq int
}

type FSErr struct {
	msg  *StrV
	kind string // notexist, exist, fault, isdir, notdir
}

type FSInfo struct {
	node *FSNode
	name *StrV
}

var fsErrT types.Type = types.NewNamed(types.NewTypeName(0, nil, "symgo.fsError", nil), types.NewStruct(nil, nil), nil)
var fsInfoT types.Type = types.NewNamed(types.NewTypeName(0, nil, "symgo.fsInfo", nil), types.NewStruct(nil, nil), nil)

func newFS() *FSModel { return &FSModel{files: map[*Cell]*FSFile{}, own: map[string]bool{}} }

func (it *Interp) fsErr(kind, msg string) *IfaceV {
	return &IfaceV{T: fsErrT, V: &FSErr{msg: it.constString(msg), kind: kind}}
}

func (it *Interp) cleanPath(p *StrV) *StrV {
	if s, ok := p.concrete(); ok {
		return it.constString(cleanConcrete(s))
	}
	clean := it.findFunc("path/filepath", "Clean")
	r := it.call(clean, []Value{p}, nil)
	return r.(*StrV)
}

func cleanConcrete(s string) string {
	// minimal filepath.Clean for unix
	if s == "" {
		return "."
	}
	rooted := s[0] == '/'
	parts := strings.Split(s, "/")
	var out []string
	for _, p := range parts {
		switch p {
		case "", ".":
		case "..":
			if len(out) > 0 && out[len(out)-1] != ".." {
				out = out[:len(out)-1]
			} else if !rooted {
				out = append(out, "..")
			}
		default:
			out = append(out, p)
		}
	}
	r := strings.Join(out, "/")
	if rooted {
		return "/" + r
	}
	if r == "" {
		return "."
	}
	return r
}

func (it *Interp) fsLog(kind string, mut bool, p, p2 *StrV, off *Term, data []*Term) {
	fs := it.fs
	e := FSEffect{Kind: kind, Path: p, Path2: p2, Off: off, Data: data, Site: it.site(), Seq: len(fs.log), Mut: mut}
	fs.log = append(fs.log, e)
	if it.job.OnFSEffect != nil {
		it.job.OnFSEffect(it, e)
	}
	if it.onFSEffect != nil {
		it.onFSEffect(it, e)
	}
}

// fault: when fault injection is on, each call may fail.
func (it *Interp) fsFault(op string) *IfaceV {
	if it.fsFaultsOff {
		return nil
	}
	if it.fs.faults || (it.job.FSFaults != nil && it.job.FSFaults(op)) {
		if it.branch(it.fresh("fsfault_"+op, SBool), "fsfault") {
			return it.fsErr("fault", op+": injected I/O error")
		}
	}
	return nil
}

// fsFind follows a symbolic link at the final path component (as open/stat/readfile do); fsFindNoFollow
// is the lstat view. Links inside a path (a directory reached through a link) are not modelled.
func (it *Interp) fsFind(p *StrV) *FSNode {
	n := it.fsFindNoFollow(p)
	for hops := 0; n != nil && n.link != "" && hops < 8; hops++ {
		n = it.fsFindNoFollow(it.constString(n.link))
	}
	if n != nil && n.link != "" {
		return nil // too many levels of symbolic links
	}
	return n
}

func (it *Interp) fsFindNoFollow(p *StrV) *FSNode {
	for _, n := range it.fs.nodes {
		if n.removed {
			continue
		}
		if it.branch(it.strEq(n.path, p), "fspath@"+it.site()) {
			return n
		}
	}
	return nil
}

func (it *Interp) fsParentOK(p *StrV) bool {
	// parent directory must exist (concrete paths only; symbolic paths: assumed ok)
	s, ok := p.concrete()
	if !ok {
		return true
	}
	i := strings.LastIndex(s, "/")
	if i <= 0 {
		return true
	}
	par := it.fsFind(it.constString(s[:i]))
	return par != nil && par.dir
}

func (it *Interp) fsMkdirAll(p *StrV) *IfaceV {
	if it.pathHasNUL(p) {
		return it.fsErr("fault", "mkdir: invalid argument")
	}
	cp := it.cleanPath(p)
	if e := it.fsFault("mkdirall"); e != nil {
		return e
	}
	s, ok := cp.concrete()
	if !ok {
		if n := it.fsFind(cp); n != nil {
			if !n.dir {
				return it.fsErr("notdir", "mkdir: not a directory")
			}
			return nil
		}
		it.fsLog("mkdir", true, cp, nil, nil, nil)
		it.fs.nodes = append(it.fs.nodes, &FSNode{path: cp, dir: true})
		return nil
	}
	parts := strings.Split(s, "/")
	cur := ""
	for i, part := range parts {
		if i == 0 && part == "" {
			continue
		}
		if i == 0 {
			cur = part
		} else {
			cur = cur + "/" + part
		}
		n := it.fsFind(it.constString(cur))
		if n == nil {
			// only directories that did not exist are effects
			it.fsLog("mkdir", true, it.constString(cur), nil, nil, nil)
			it.fs.nodes = append(it.fs.nodes, &FSNode{path: it.constString(cur), dir: true})
		} else if !n.dir {
			return it.fsErr("notdir", "mkdir "+cur+": not a directory")
		}
	}
	return nil
}

func (it *Interp) fsWriteFile(p *StrV, data []*Term) *IfaceV {
	cp := it.cleanPath(p)
	if e := it.fsFault("create"); e != nil {
		return e
	}
	if !it.fsParentOK(cp) {
		return it.fsErr("notexist", "open: no such file or directory")
	}
	n := it.fsFind(cp)
	if n != nil && n.dir {
		return it.fsErr("isdir", "open: is a directory")
	}
	it.fsLog("create", true, cp, nil, nil, nil)
	if n == nil {
		n = &FSNode{path: cp}
		it.fs.nodes = append(it.fs.nodes, n)
	}
	n.data = nil
	// block-wise writes so that a crash cut can fall inside
	bs := it.job.FSBlock
	if bs <= 0 {
		bs = 1 << 30
	}
	for off := 0; off < len(data); off += bs {
		end := off + bs
		if end > len(data) {
			end = len(data)
		}
		if e := it.fsFault("write"); e != nil {
			return e
		}
		it.fsLog("write", true, cp, nil, it.ctx.BV(uint64(off), 64), data[off:end])
		n.data = append(n.data, data[off:end]...)
	}
	return nil
}

func (it *Interp) fsReadFile(p *StrV) ([]*Term, *IfaceV) {
	cp := it.cleanPath(p)
	it.fsLog("read", false, cp, nil, nil, nil)
	if e := it.fsFault("read"); e != nil {
		return nil, e
	}
	n := it.fsFind(cp)
	if n == nil {
		return nil, it.fsErr("notexist", "open: no such file or directory")
	}
	if n.dir {
		return nil, it.fsErr("isdir", "read: is a directory")
	}
	return n.data, nil
}

func (it *Interp) fsRename(a, b *StrV) *IfaceV {
	ca, cb := it.cleanPath(a), it.cleanPath(b)
	if e := it.fsFault("rename"); e != nil {
		return e
	}
	n := it.fsFindNoFollow(ca)
	if n == nil {
		return it.fsErr("notexist", "rename: no such file or directory")
	}
	it.fsLog("rename", true, ca, cb, nil, nil)
	if d := it.fsFindNoFollow(cb); d != nil && d != n {
		d.removed = true
	}
	n.path = cb
	return nil
}

func (it *Interp) fsRemove(p *StrV, all bool) *IfaceV {
	cp := it.cleanPath(p)
	if e := it.fsFault("remove"); e != nil {
		return e
	}
	kind := "remove"
	if all {
		kind = "removeall"
	}
	it.fsLog(kind, true, cp, nil, nil, nil)
	n := it.fsFindNoFollow(cp)
	if n == nil {
		if all {
			return nil
		}
		return it.fsErr("notexist", "remove: no such file or directory")
	}
	n.removed = true
	if all {
		if s, ok := cp.concrete(); ok {
			for _, m := range it.fs.nodes {
				if ms, ok := m.path.concrete(); ok && strings.HasPrefix(ms, s+"/") {
					m.removed = true
				}
			}
		}
	}
	return nil
}

func (it *Interp) newFileValue(f *FSFile) Value {
	c := &Cell{typ: types.Typ[types.Int], obj: it.newObject("osfile")}
	c.v = it.ctx.BV(0, 64)
	it.fs.files[c] = f
	return &Ptr{c: c}
}

func (it *Interp) fileOf(v Value) *FSFile {
	p := it.ptr(v)
	if p.IsNil() {
		return nil
	}
	f := it.fs.files[p.c]
	if f == nil {
		it.inconclusive("os.File of unknown origin")
	}
	return f
}

const (
	oWRONLY = 0x1
	oRDWR   = 0x2
	oCREATE = 0x40
	oEXCL   = 0x80
	oTRUNC  = 0x200
	oAPPEND = 0x400
)

// a path containing a NUL byte is rejected by the kernel interface (EINVAL)
func (it *Interp) pathHasNUL(p *StrV) bool {
	var hits []*Term
	for _, b := range p.b {
		hits = append(hits, it.ctx.Eq(b, it.ctx.BV(0, 8)))
	}
	return it.branch(it.ctx.Or(hits...), "nulpath@"+it.site())
}

func (it *Interp) fsOpen(p *StrV, flag uint64) (Value, *IfaceV) {
	if it.pathHasNUL(p) {
		return &Ptr{}, it.fsErr("fault", "open: invalid argument")
	}
	cp := it.cleanPath(p)
	wr := flag&(oWRONLY|oRDWR) != 0
	it.fsLog("open", wr && flag&oCREATE != 0, cp, nil, it.ctx.BV(flag, 64), nil)
	if e := it.fsFault("open"); e != nil {
		return &Ptr{}, e
	}
	n := it.fsFind(cp)
	if n == nil {
		if flag&oCREATE == 0 {
			return &Ptr{}, it.fsErr("notexist", "open: no such file or directory")
		}
		if !it.fsParentOK(cp) {
			return &Ptr{}, it.fsErr("notexist", "open: no such file or directory")
		}
		n = &FSNode{path: cp}
		it.fs.nodes = append(it.fs.nodes, n)
	} else {
		if flag&oEXCL != 0 && flag&oCREATE != 0 {
			return &Ptr{}, it.fsErr("exist", "open: file exists")
		}
		if n.dir && wr {
			return &Ptr{}, it.fsErr("isdir", "open: is a directory")
		}
		if flag&oTRUNC != 0 && wr {
			it.fsLog("truncate", true, cp, nil, it.ctx.BV(0, 64), nil)
			n.data = nil
		}
	}
	return it.newFileValue(&FSFile{node: n, path: cp, write: wr}), nil
}

func osModel(name string) interceptFn {
	switch name {
	case "os.ReadFile":
		return func(it *Interp, fn *ssa.Function, a []Value) Value {
			d, e := it.fsReadFile(a[0].(*StrV))
			if e != nil {
				return TupleV{&SliceV{elem: types.Typ[types.Uint8]}, e}
			}
			return TupleV{it.newByteSlice(append([]*Term{}, d...), "ReadFile"), &IfaceV{}}
		}
	case "os.WriteFile":
		return func(it *Interp, fn *ssa.Function, a []Value) Value {
			if e := it.fsWriteFile(a[0].(*StrV), it.bytesOfSlice(a[1].(*SliceV))); e != nil {
				return e
			}
			return &IfaceV{}
		}
	case "os.MkdirAll", "os.Mkdir":
		return func(it *Interp, fn *ssa.Function, a []Value) Value {
			if e := it.fsMkdirAll(a[0].(*StrV)); e != nil {
				return e
			}
			return &IfaceV{}
		}
	case "os.Rename":
		return func(it *Interp, fn *ssa.Function, a []Value) Value {
			if e := it.fsRename(a[0].(*StrV), a[1].(*StrV)); e != nil {
				return e
			}
			return &IfaceV{}
		}
	case "os.Remove", "os.RemoveAll":
		return func(it *Interp, fn *ssa.Function, a []Value) Value {
			if e := it.fsRemove(a[0].(*StrV), name == "os.RemoveAll"); e != nil {
				return e
			}
			return &IfaceV{}
		}
	case "os.Stat", "os.Lstat":
		return func(it *Interp, fn *ssa.Function, a []Value) Value {
			cp := it.cleanPath(a[0].(*StrV))
			it.fsLog("stat", false, cp, nil, nil, nil)
			if e := it.fsFault("stat"); e != nil {
				return TupleV{&IfaceV{}, e}
			}
			n := it.fsFind(cp)
			if name == "os.Lstat" {
				n = it.fsFindNoFollow(cp)
			}
			if n == nil {
				return TupleV{&IfaceV{}, it.fsErr("notexist", "stat: no such file or directory")}
			}
			return TupleV{&IfaceV{T: fsInfoT, V: &FSInfo{node: n}}, &IfaceV{}}
		}
	case "os.IsNotExist":
		return func(it *Interp, fn *ssa.Function, a []Value) Value {
			iv := a[0].(*IfaceV)
			for d := 0; d < 10 && iv.T != nil; d++ {
				if fe, ok := iv.V.(*FSErr); ok {
					return it.ctx.Bool(fe.kind == "notexist")
				}
				iv = it.unwrapErr(iv).(*IfaceV)
			}
			return it.ctx.False
		}
	case "os.IsExist":
		return func(it *Interp, fn *ssa.Function, a []Value) Value {
			iv := a[0].(*IfaceV)
			if fe, ok := iv.V.(*FSErr); ok {
				return it.ctx.Bool(fe.kind == "exist")
			}
			return it.ctx.False
		}
	case "os.OpenFile":
		return func(it *Interp, fn *ssa.Function, a []Value) Value {
			fl := it.term(a[1], "flag")
			if !fl.IsConst() {
				it.inconclusive("symbolic open flags")
			}
			f, e := it.fsOpen(a[0].(*StrV), fl.V)
			if e != nil {
				return TupleV{f, e}
			}
			return TupleV{f, &IfaceV{}}
		}
	case "os.Open":
		return func(it *Interp, fn *ssa.Function, a []Value) Value {
			f, e := it.fsOpen(a[0].(*StrV), 0)
			if e != nil {
				return TupleV{f, e}
			}
			return TupleV{f, &IfaceV{}}
		}
	case "os.Create":
		return func(it *Interp, fn *ssa.Function, a []Value) Value {
			f, e := it.fsOpen(a[0].(*StrV), oRDWR|oCREATE|oTRUNC)
			if e != nil {
				return TupleV{f, e}
			}
			return TupleV{f, &IfaceV{}}
		}
	case "(*os.File).Close":
		return func(it *Interp, fn *ssa.Function, a []Value) Value {
			f := it.fileOf(a[0])
			if f == nil {
				return it.fsErr("fault", "invalid argument")
			}
			if f.closed {
				return it.fsErr("fault", "file already closed")
			}
			f.closed = true
			return &IfaceV{}
		}
	case "(*os.File).Sync":
		return func(it *Interp, fn *ssa.Function, a []Value) Value {
			if e := it.fsFault("sync"); e != nil {
				return e
			}
			return &IfaceV{}
		}
	case "(*os.File).Name":
		return func(it *Interp, fn *ssa.Function, a []Value) Value { return it.fileOf(a[0]).path }
	case "(*os.File).Stat":
		return func(it *Interp, fn *ssa.Function, a []Value) Value {
			f := it.fileOf(a[0])
			if e := it.fsFault("fstat"); e != nil {
				return TupleV{&IfaceV{}, e}
			}
			return TupleV{&IfaceV{T: fsInfoT, V: &FSInfo{node: f.node}}, &IfaceV{}}
		}
	case "(*os.File).Truncate":
		return func(it *Interp, fn *ssa.Function, a []Value) Value {
			f := it.fileOf(a[0])
			sz := it.term(a[1], "size")
			if e := it.fsFault("truncate"); e != nil {
				return e
			}
			it.fsLog("truncate", true, f.path, nil, sz, nil)
			if !sz.IsConst() {
				max := it.job.MaxFileSize
				if !it.branch(it.ctx.ULE(sz, it.ctx.BV(uint64(max), 64)), "truncsize") {
					panic(pathEnd{"truncated", fmt.Sprintf("file size > %d (outside bound)", max)})
				}
				sz = it.ctx.BV(uint64(it.concretize(sz, max+1, "truncate size")), 64)
			}
			n := int(sz.V)
			if n > it.job.MaxFileSize {
				panic(pathEnd{"truncated", fmt.Sprintf("file size %d > %d (outside bound)", n, it.job.MaxFileSize)})
			}
			for len(f.node.data) < n {
				f.node.data = append(f.node.data, it.ctx.BV(0, 8))
			}
			f.node.data = f.node.data[:n]
			return &IfaceV{}
		}
	case "(*os.File).WriteAt":
		return func(it *Interp, fn *ssa.Function, a []Value) Value {
			f := it.fileOf(a[0])
			data := it.bytesOfSlice(a[1].(*SliceV))
			off := it.term(a[2], "off")
			if f.closed {
				return TupleV{it.ctx.BV(0, 64), it.fsErr("fault", "file already closed")}
			}
			if e := it.fsFault("writeat"); e != nil {
				return TupleV{it.ctx.BV(0, 64), e}
			}
			it.fsLog("write", true, f.path, nil, off, data)
			if !off.IsConst() {
				max := it.job.MaxFileSize
				if !it.branch(it.ctx.ULE(off, it.ctx.BV(uint64(max), 64)), "writeoff") {
					panic(pathEnd{"truncated", fmt.Sprintf("write offset > %d (outside bound)", max)})
				}
				off = it.ctx.BV(uint64(it.concretize(off, max+1, "write offset")), 64)
			}
			o := int(off.V)
			if o+len(data) > it.job.MaxFileSize+64 {
				panic(pathEnd{"truncated", "write beyond modelled file size"})
			}
			for len(f.node.data) < o+len(data) {
				f.node.data = append(f.node.data, it.ctx.BV(0, 8))
			}
			copy(f.node.data[o:], data)
			return TupleV{it.ctx.BV(uint64(len(data)), 64), &IfaceV{}}
		}
	case "(*os.File).ReadAt":
		return func(it *Interp, fn *ssa.Function, a []Value) Value {
			f := it.fileOf(a[0])
			dst := a[1].(*SliceV)
			off := it.term(a[2], "off")
			if e := it.fsFault("readat"); e != nil {
				return TupleV{it.ctx.BV(0, 64), e}
			}
			if !off.IsConst() {
				max := len(f.node.data)
				if !it.branch(it.ctx.ULE(off, it.ctx.BV(uint64(max), 64)), "readoff") {
					return TupleV{it.ctx.BV(0, 64), it.loadGlobal("io", "EOF")}
				}
				off = it.ctx.BV(uint64(it.concretize(off, max+1, "read offset")), 64)
			}
			o := int(off.V)
			n := 0
			cells := dst.cells()
			for n < len(cells) && o+n < len(f.node.data) {
				cells[n].v = f.node.data[o+n]
				n++
			}
			var err Value = &IfaceV{}
			if n < len(cells) {
				err = it.loadGlobal("io", "EOF")
			}
			return TupleV{it.ctx.BV(uint64(n), 64), err}
		}
	case "(*os.File).Read":
		return func(it *Interp, fn *ssa.Function, a []Value) Value {
			f := it.fileOf(a[0])
			dst := a[1].(*SliceV)
			if e := it.fsFault("read"); e != nil {
				return TupleV{it.ctx.BV(0, 64), e}
			}
			cells := dst.cells()
			if len(cells) == 0 {
				return TupleV{it.ctx.BV(0, 64), &IfaceV{}}
			}
			n := 0
			for n < len(cells) && f.pos < len(f.node.data) {
				cells[n].v = f.node.data[f.pos]
				n++
				f.pos++
			}
			if n == 0 {
				return TupleV{it.ctx.BV(0, 64), it.loadGlobal("io", "EOF")}
			}
			return TupleV{it.ctx.BV(uint64(n), 64), &IfaceV{}}
		}
	case "(*os.File).Write":
		return func(it *Interp, fn *ssa.Function, a []Value) Value {
			f := it.fileOf(a[0])
			data := it.bytesOfSlice(a[1].(*SliceV))
			if e := it.fsFault("write"); e != nil {
				return TupleV{it.ctx.BV(0, 64), e}
			}
			it.fsLog("write", true, f.path, nil, it.ctx.BV(uint64(f.pos), 64), data)
			for len(f.node.data) < f.pos+len(data) {
				f.node.data = append(f.node.data, it.ctx.BV(0, 8))
			}
			copy(f.node.data[f.pos:], data)
			f.pos += len(data)
			return TupleV{it.ctx.BV(uint64(len(data)), 64), &IfaceV{}}
		}
	case "os.Getwd":
		return func(it *Interp, fn *ssa.Function, a []Value) Value {
			return TupleV{it.constString("/cwd"), &IfaceV{}}
		}
	case "os.init":
		return nil
	}
	if strings.HasPrefix(name, "os.") && !strings.Contains(name, "(") {
		base := name[3:]
		switch base {
		case "NewFile", "Getenv", "LookupEnv", "Getpid", "Hostname", "UserHomeDir", "Executable", "ReadDir", "Chmod", "Chtimes", "Symlink", "Readlink", "MkdirTemp", "CreateTemp", "TempDir":
			return func(it *Interp, fn *ssa.Function, a []Value) Value {
				it.inconclusive("unmodelled " + name)
				return nil
			}
		}
	}
	if strings.HasPrefix(name, "(*os.File).") {
		return func(it *Interp, fn *ssa.Function, a []Value) Value {
			it.inconclusive("unmodelled " + name)
			return nil
		}
	}
	return nil
}

func (it *Interp) loadGlobal(pkgPath, name string) Value {
	for _, p := range it.prog.AllPackages() {
		if p.Pkg.Path() == pkgPath {
			if g, ok := p.Members[name].(*ssa.Global); ok {
				return it.loadCell(it.globalCell(g))
			}
		}
	}
	it.inconclusive("global " + pkgPath + "." + name + " not loaded")
	return nil
}

func (it *Interp) engineMethodExtra(iv *IfaceV, name string) Value {
	if iv.T == fsInfoT {
		fi := iv.V.(*FSInfo)
		switch name {
		case "Size":
			return &EngineFunc{"Size", func(it *Interp, a []Value) Value {
				if fi.node.link != "" {
					return it.ctx.BV(uint64(len(fi.node.link)), 64) // lstat of a link: the length of its target text
				}
				return it.ctx.BV(uint64(len(fi.node.data)), 64)
			}}
		case "IsDir":
			return &EngineFunc{"IsDir", func(it *Interp, a []Value) Value { return it.ctx.Bool(fi.node.dir) }}
		case "Mode":
			return &EngineFunc{"Mode", func(it *Interp, a []Value) Value {
				if fi.node.link != "" {
					return it.ctx.BV(1<<27|0777, 32)
				}
				if fi.node.dir {
					return it.ctx.BV(1<<31|0755, 32)
				}
				return it.ctx.BV(0644, 32)
			}}
		case "Name":
			return &EngineFunc{"Name", func(it *Interp, a []Value) Value {
				s, ok := fi.node.path.concrete()
				if !ok {
					it.inconclusive("FileInfo.Name of symbolic path")
				}
				return it.constString(s[strings.LastIndex(s, "/")+1:])
			}}
		case "ModTime":
			return &EngineFunc{"ModTime", func(it *Interp, a []Value) Value { return it.makeTime(it.ctx.BV(1, 64)) }}
		}
	}
	if iv.T == ctxT {
		return it.ctxMethod(iv.V.(*CtxObj), name)
	}
	if iv.T == fsDirEntryT {
		return it.dirEntryMethod(iv.V.(*FSDirEntry), name)
	}
	if iv.T == hmacT {
		return it.hmacMethod(iv.V.(*hmacObj), name)
	}
	if iv.T == crcDigestT {
		return it.crcDigestMethod(iv.V.(*crcDigest), name)
	}
	return nil
}

// harness: vTempSymlink(name, target string) string — a symbolic link vtmp/name -> target (absolute path)
func hTempSymlink(it *Interp, fn *ssa.Function, a []Value) Value {
	name, ok1 := a[0].(*StrV).concrete()
	target, ok2 := a[1].(*StrV).concrete()
	if !ok1 || !ok2 {
		it.inconclusive("symbolic link with a symbolic name or target")
	}
	dir := "/vtmp"
	if it.fsFindNoFollow(it.constString(dir)) == nil {
		it.fs.nodes = append(it.fs.nodes, &FSNode{path: it.constString(dir), dir: true})
	}
	parts := strings.Split(name, "/")
	cur := dir
	for _, part := range parts[:len(parts)-1] {
		cur += "/" + part
		if it.fsFindNoFollow(it.constString(cur)) == nil {
			it.fs.nodes = append(it.fs.nodes, &FSNode{path: it.constString(cur), dir: true})
		}
	}
	it.fs.own[dir+"/"+parts[0]] = true
	it.fs.nodes = append(it.fs.nodes, &FSNode{path: it.constString(dir + "/" + name), link: target})
	return it.constString(dir + "/" + name)
}

func init() { harnessAPI["vTempSymlink"] = hTempSymlink }

// harness: vTempFile(name string, content []byte) string — creates a file in the FS model
func hTempFile(it *Interp, fn *ssa.Function, a []Value) Value {
	nameV := a[0].(*StrV)
	it.fs.tmpSeq++
	dir := "/vtmp"
	if it.fsFind(it.constString(dir)) == nil {
		it.fs.nodes = append(it.fs.nodes, &FSNode{path: it.constString(dir), dir: true})
	}
	name, concrete := nameV.concrete()
	p := &StrV{append(append([]*Term{}, it.constString(dir + "/").b...), nameV.b...)}
	if concrete {
		// intermediate directories of a concrete name
		parts := strings.Split(name, "/")
		cur := dir
		for _, part := range parts[:len(parts)-1] {
			cur += "/" + part
			if it.fsFind(it.constString(cur)) == nil {
				it.fs.nodes = append(it.fs.nodes, &FSNode{path: it.constString(cur), dir: true})
			}
		}
		it.fs.own[dir+"/"+parts[0]] = true
		it.fs.own[dir+"/"+name] = true
	} else {
		// symbolic name: its concrete directory prefix (up to the last concrete '/') is created
		last := -1
		for i, b := range nameV.b {
			if b.IsConst() && b.V == '/' {
				last = i
			}
			if !b.IsConst() {
				break
			}
		}
		if last > 0 {
			pre := &StrV{nameV.b[:last]}
			if ps, ok := pre.concrete(); ok {
				cur := dir
				for _, part := range strings.Split(ps, "/") {
					cur += "/" + part
					if it.fsFind(it.constString(cur)) == nil {
						it.fs.nodes = append(it.fs.nodes, &FSNode{path: it.constString(cur), dir: true})
					}
				}
			}
		}
	}
	if n := it.fsFind(p); n != nil {
		n.removed = true
	}
	it.fs.nodes = append(it.fs.nodes, &FSNode{path: p, data: append([]*Term{}, it.bytesOfSlice(a[1].(*SliceV))...)})
	return p
}

// vTempDir() string
func hTempDir(it *Interp, fn *ssa.Function, a []Value) Value {
	dir := "/vtmp"
	if it.fsFind(it.constString(dir)) == nil {
		it.fs.nodes = append(it.fs.nodes, &FSNode{path: it.constString(dir), dir: true})
	}
	return it.constString(dir)
}

// vFSLog() int: number of mutating effects so far
func hFSLog(it *Interp, fn *ssa.Function, a []Value) Value {
	n := 0
	for _, e := range it.fs.log {
		if e.Mut {
			n++
		}
	}
	return it.ctx.BV(uint64(n), 64)
}


// vFSConfined(parent, name string) bool: every mutating effect so far has a cleaned path equal to
// parent/name or below it (solver-level condition over possibly symbolic path bytes).
func hFSConfined(it *Interp, fn *ssa.Function, a []Value) Value {
	parent, _ := a[0].(*StrV).concrete()
	name, _ := a[1].(*StrV).concrete()
	root := it.constString(parent + "/" + name).b
	c := it.ctx
	all := c.True
	for _, e := range it.fs.log {
		if !e.Mut && e.Kind != "open" {
			continue
		}
		for _, p := range []*StrV{e.Path, e.Path2} {
			if p == nil {
				continue
			}
			// harness-made files directly under parent are not the code's doing
			if s, ok := p.concrete(); ok && it.fs.own[s] {
				continue
			}
			var inside *Term
			if len(p.b) < len(root) {
				inside = c.False
			} else {
				eqs := []*Term{}
				for i := range root {
					eqs = append(eqs, c.Eq(p.b[i], root[i]))
				}
				if len(p.b) > len(root) {
					eqs = append(eqs, c.Eq(p.b[len(root)], c.BV('/', 8)))
				}
				inside = c.And(eqs...)
			}
			all = c.And(all, inside)
		}
	}
	return all
}

func init() { harnessAPI["vFSConfined"] = hFSConfined }

// ---------------------------------------------------------------------------------------
// filepath.WalkDir over the filesystem model (concrete paths only): pre-order, entries of a directory
// in lexical order of their names, as the standard library does.

type FSDirEntry struct{ node *FSNode }

var fsDirEntryT types.Type = types.NewNamed(types.NewTypeName(0, nil, "symgo.fsDirEntry", nil), types.NewStruct(nil, nil), nil)

func (it *Interp) fsChildren(dir string) []*FSNode {
	var out []*FSNode
	for _, n := range it.fs.nodes {
		if n.removed {
			continue
		}
		s, ok := n.path.concrete()
		if !ok {
			it.inconclusive("directory walk over symbolic file names")
		}
		if strings.HasPrefix(s, dir+"/") && !strings.Contains(s[len(dir)+1:], "/") {
			out = append(out, n)
		}
	}
	sort.Slice(out, func(i, j int) bool {
		a, _ := out[i].path.concrete()
		b, _ := out[j].path.concrete()
		return a < b
	})
	return out
}

func (it *Interp) walkDir(path string, n *FSNode, fn Value) *IfaceV {
	skipDir := it.loadGlobal("io/fs", "SkipDir").(*IfaceV)
	skipAll := it.loadGlobal("io/fs", "SkipAll").(*IfaceV)
	r := it.callValue(fn, []Value{it.constString(path), &IfaceV{T: fsDirEntryT, V: &FSDirEntry{n}}, &IfaceV{}}, nil).(*IfaceV)
	if r.T != nil {
		if it.sameErr(r, skipDir) && n.dir {
			return nil
		}
		return r
	}
	if !n.dir {
		return nil
	}
	for _, c := range it.fsChildren(path) {
		cp, _ := c.path.concrete()
		if e := it.walkDir(cp, c, fn); e != nil {
			if it.sameErr(e, skipDir) {
				break
			}
			return e
		}
	}
	_ = skipAll
	return nil
}

func init() {
	intercepts["path/filepath.WalkDir"] = func(it *Interp, fn *ssa.Function, a []Value) Value {
		root, ok := it.cleanPath(a[0].(*StrV)).concrete()
		if !ok {
			it.inconclusive("WalkDir of a symbolic path")
		}
		n := it.fsFind(it.constString(root))
		if n == nil {
			e := it.fsErr("notexist", "lstat "+root+": no such file or directory")
			r := it.callValue(a[1], []Value{it.constString(root), &IfaceV{}, e}, nil).(*IfaceV)
			return r
		}
		e := it.walkDir(root, n, a[1])
		if e != nil {
			skipDir := it.loadGlobal("io/fs", "SkipDir").(*IfaceV)
			skipAll := it.loadGlobal("io/fs", "SkipAll").(*IfaceV)
			if it.sameErr(e, skipDir) || it.sameErr(e, skipAll) {
				return &IfaceV{}
			}
			return e
		}
		return &IfaceV{}
	}
}

func (it *Interp) dirEntryMethod(d *FSDirEntry, name string) Value {
	switch name {
	case "Name":
		return &EngineFunc{"Name", func(it *Interp, a []Value) Value {
			s, _ := d.node.path.concrete()
			return it.constString(s[strings.LastIndex(s, "/")+1:])
		}}
	case "IsDir":
		return &EngineFunc{"IsDir", func(it *Interp, a []Value) Value { return it.ctx.Bool(d.node.dir) }}
	case "Info":
		return &EngineFunc{"Info", func(it *Interp, a []Value) Value {
			return TupleV{&IfaceV{T: fsInfoT, V: &FSInfo{node: d.node}}, &IfaceV{}}
		}}
	case "Type":
		return &EngineFunc{"Type", func(it *Interp, a []Value) Value {
			if d.node.link != "" {
				return it.ctx.BV(1<<27, 32)
			}
			if d.node.dir {
				return it.ctx.BV(1<<31, 32)
			}
			return it.ctx.BV(0, 32)
		}}
	}
	return nil
}
