package main

// Check driver: property -> obligations (jobs) -> exploration -> native replay of counterexamples ->
// known-findings policy -> evidence file -> exit code.

import (
	"crypto/sha1"
	"encoding/json"
	"fmt"
	"os"
	"os/exec"
	"path/filepath"
	"regexp"
	"sort"
	"strconv"
	"strings"
	"sync"
	"sync/atomic"
	"time"

	"golang.org/x/tools/go/ssa"
)

type PropCheck struct {
	ID          string
	PkgDirs     []string
	Level       string // evidence level: "other" or "model_checking"
	Explanation string
	Rule        string
	Assumptions []string
	Trusted     []string
	Bounds      func(tier string) string
	Jobs        func(tier string, prog *ssa.Program) []*Job
	Extra       func(tier string, ld *Loaded, ev map[string]interface{}) []Finding // non-job obligations (C19 terms, C08 CFG)
	NoDiff      bool
}

type Finding struct {
	Obligation string
	Kind       string // assert, panic, blocked, alloc
	Msg        string
	Fn         string // function of the real code where it fired (panics/allocs)
	Inputs     string // JSON inputs for the native harness
	Entry      string // harness to replay (empty: not replayable natively)
	PkgDir     string
	Replay     func(dir string) (reproduced bool, detail string) // custom replay
	Test       string // native replay test name (default TestVerifReplay)
	Instr      []SrcInsert
}

func (f Finding) Signature() string {
	s := f.Obligation + "|" + f.Kind + "|" + f.Msg
	if f.Fn != "" {
		s += "|" + f.Fn
	}
	return s
}

type KnownFinding struct {
	Property   string `json:"property"`
	Match      string `json:"match"`
	Status     string `json:"status"` // known | fixed
	Commit     string `json:"commit,omitempty"`
	Text       string `json:"text"`
}

var registry = map[string]*PropCheck{}

func register(p *PropCheck) { registry[p.ID] = p }

func loadKnown() []KnownFinding {
	b, err := os.ReadFile(filepath.Join(verifDir(), "known_findings.json"))
	if err != nil {
		return nil
	}
	var doc struct {
		Findings []KnownFinding `json:"findings"`
	}
	if json.Unmarshal(b, &doc) != nil {
		return nil
	}
	return doc.Findings
}

func mainCheck(args []string) int {
	if len(args) >= 2 && args[0] == "replay" {
		return replayDir(args[1])
	}
	if len(args) >= 1 && args[0] == "list" {
		var ids []string
		for id := range registry {
			ids = append(ids, id)
		}
		sort.Strings(ids)
		fmt.Println(strings.Join(ids, " "))
		return 0
	}
	if len(args) < 2 || args[0] != "check" {
		fmt.Fprintln(os.Stderr, "usage: symgo check <id> <quick|thorough> | replay <dir> | job <pkg> <entry>")
		return 2
	}
	id := args[1]
	tier := "quick"
	if len(args) > 2 {
		tier = args[2]
	}
	p := registry[id]
	if p == nil {
		fmt.Fprintf(os.Stderr, "no check registered for %s\n", id)
		return 2
	}
	return runCheck(p, tier)
}

func runCheck(p *PropCheck, tier string) int {
	t0 := time.Now()
	seed, _ := strconv.Atoi(os.Getenv("VERIF_SEED"))
	ld, err := loadRepo(p.PkgDirs)
	if err != nil {
		fmt.Fprintf(os.Stderr, "symgo: cannot load %v from %s: %v\n", p.PkgDirs, repoDir(), err)
		fmt.Printf("INCONCLUSIVE property=%s cannot load the repository with the harness overlay: %v\n", p.ID, err)
		writeEvidence(p, tier, seed, nil, nil, map[string]interface{}{"load_error": err.Error()}, time.Since(t0).Seconds(), 0)
		// a tree that no longer compiles with the harness cannot be judged; do not alarm
		return 0
	}
	extraEv := map[string]interface{}{"load_seconds": ld.LoadSec}
	var jobs []*Job
	if p.Jobs != nil {
		jobs = p.Jobs(tier, ld.Prog)
	}
	// run jobs concurrently (bounded by the global solver semaphore)
	var wg sync.WaitGroup
	for _, j := range jobs {
		wg.Add(1)
		if tier == "thorough" {
			j.Cross = true
		}
		go func(j *Job) {
			defer wg.Done()
			Explore(ld.Prog, j)
		}(j)
	}
	wg.Wait()
	var findings []Finding
	for _, j := range jobs {
		seen := map[string]int{}
		for _, v := range j.res.Violations {
			f := Finding{Obligation: j.ID, Kind: v.Kind, Msg: v.Msg, Inputs: v.Extra["inputs"], Entry: j.Entry, PkgDir: j.Pkg, Test: j.ReplayTest, Instr: j.ReplayInstr}
			if v.Kind == "panic" || v.Kind == "blocked" || v.Kind == "alloc" || v.Kind == "hang" {
				f.Msg = stripSite(v.Msg)
				f.Fn = v.Site
			}
			if seen[f.Signature()] >= 6 {
				continue
			}
			seen[f.Signature()]++
			findings = append(findings, f)
		}
	}
	if p.Extra != nil {
		findings = append(findings, p.Extra(tier, ld, extraEv)...)
	}
	// replay & classify
	known := loadKnown()
	type group struct {
		sig        string
		fs         []Finding
		reproduced bool
		detail     string
		path       string
	}
	groups := map[string]*group{}
	var order []string
	for _, f := range findings {
		s := f.Signature()
		if groups[s] == nil {
			groups[s] = &group{sig: s}
			order = append(order, s)
		}
		groups[s].fs = append(groups[s].fs, f)
	}
	violations := 0
	unconfirmed := 0
	knownHit := 0
	var lines []string
	var replayMu sync.Mutex
	var rwg sync.WaitGroup
	rsem := make(chan struct{}, 6)
	for _, s := range order {
		g := groups[s]
		rwg.Add(1)
		go func(g *group) {
			defer rwg.Done()
			rsem <- struct{}{}
			defer func() { <-rsem }()
			for _, f := range g.fs {
				ok, detail, path := replayFinding(p, f)
				replayMu.Lock()
				g.detail, g.path = detail, path
				if ok {
					g.reproduced = true
				}
				replayMu.Unlock()
				if ok {
					break
				}
			}
		}(g)
	}
	rwg.Wait()
	var sampleCex []interface{}
	for _, s := range order {
		g := groups[s]
		if !g.reproduced {
			unconfirmed++
			lines = append(lines, fmt.Sprintf("UNCONFIRMED property=%s obligation=%s (%s) replay did not reproduce: %s", p.ID, g.fs[0].Obligation, g.sig, g.detail))
			continue
		}
		isKnown := false
		for _, k := range known {
			if k.Property == p.ID && k.Status == "known" && strings.Contains(g.sig, k.Match) {
				isKnown = true
				lines = append(lines, fmt.Sprintf("KNOWN-FINDING: property=%s %s [%s]", p.ID, k.Text, g.sig))
				knownHit++
				break
			}
		}
		if len(sampleCex) < 6 {
			sampleCex = append(sampleCex, map[string]interface{}{"counterexample": g.sig, "inputs": json.RawMessage(orEmptyObj(g.fs[0].Inputs)), "replay": g.path, "reproduced": true, "known": isKnown})
		}
		if !isKnown {
			violations++
			lines = append(lines, fmt.Sprintf("VIOLATION property=%s replay=%s", p.ID, g.path))
			lines = append(lines, fmt.Sprintf("  what: %s", g.sig))
		}
	}
	// translator validation: passing paths must pass natively with the same inputs
	diffRun, diffBad := 0, 0
	var dwg sync.WaitGroup
	var dmu sync.Mutex
	for _, j := range jobs {
		if p.NoDiff || j.Threads || j.NoDiff {
			continue // schedule-dependent harnesses are validated through their counterexample replays only
		}
		for i, inp := range j.res.OkModels {
			dwg.Add(1)
			go func(j *Job, i int, inp string) {
				defer dwg.Done()
				rsem <- struct{}{}
				defer func() { <-rsem }()
				f := Finding{Obligation: j.ID, Kind: "diff", Msg: fmt.Sprintf("passing path %d", i), Inputs: inp, Entry: j.Entry, PkgDir: j.Pkg, Instr: j.ReplayInstr}
				bad, detail, path := replayFinding(p, f)
				dmu.Lock()
				diffRun++
				if bad || strings.HasPrefix(detail, "ASSUME-FAILED") || strings.HasPrefix(detail, "no outcome") {
					diffBad++
					lines = append(lines, fmt.Sprintf("INCONCLUSIVE property=%s obligation=%s translator mismatch: a path that passes symbolically gives %q natively (%s)", p.ID, j.ID, detail, path))
				}
				dmu.Unlock()
			}(j, i, inp)
		}
	}
	dwg.Wait()
	extraEv["traces_validated"] = diffRun - diffBad
	extraEv["native_differential_runs"] = diffRun
	extraEv["native_differential_mismatches"] = diffBad
	// inconclusive reporting
	inconc := diffBad
	for _, j := range jobs {
		for r, n := range j.res.Inconclusive {
			inconc += n
			lines = append(lines, fmt.Sprintf("INCONCLUSIVE property=%s obligation=%s x%d: %s", p.ID, j.ID, n, r))
		}
		for r, n := range j.res.UnknownAsserts {
			inconc += n
			lines = append(lines, fmt.Sprintf("INCONCLUSIVE property=%s obligation=%s x%d: solver unknown on %s", p.ID, j.ID, n, r))
		}
		for _, ci := range j.res.CrossIssues {
			inconc++
			lines = append(lines, fmt.Sprintf("INCONCLUSIVE property=%s solver disagreement: %s", p.ID, ci))
		}
		if j.res.Paths > 0 && j.res.Outcomes["assume-false"] == j.res.Paths {
			inconc++
			lines = append(lines, fmt.Sprintf("INCONCLUSIVE property=%s obligation=%s vacuous: every path ends in an infeasible assumption", p.ID, j.ID))
		}
	}
	sort.Strings(lines)
	for _, l := range lines {
		fmt.Println(l)
	}
	extraEv["unconfirmed"] = unconfirmed
	extraEv["known_findings_hit"] = knownHit
	extraEv["inconclusive_items"] = inconc
	if len(sampleCex) > 0 {
		extraEv["counterexamples"] = sampleCex
	}
	wall := time.Since(t0).Seconds()
	writeEvidence(p, tier, seed, jobs, findings, extraEv, wall, violations)
	fmt.Printf("symgo: property=%s tier=%s obligations=%d violations=%d known=%d unconfirmed=%d inconclusive=%d wall=%.1fs\n",
		p.ID, tier, len(jobs), violations, knownHit, unconfirmed, inconc, wall)
	if violations > 0 {
		return 1
	}
	return 0
}

func orEmptyObj(s string) string {
	if s == "" {
		return "{}"
	}
	return s
}

var siteRe = regexp.MustCompile(` @[^ ]+( \[|$)`)
var atRe = regexp.MustCompile(` at [^ )]+`)
var braceRe = regexp.MustCompile(` ?\{[^}]*\}`)

// stripSite removes file:line positions from a message (they move under unrelated edits).
func stripSite(s string) string {
	s = siteRe.ReplaceAllString(s, "$1")
	s = strings.TrimSuffix(s, " [")
	s = braceRe.ReplaceAllString(s, "")
	return strings.TrimSpace(atRe.ReplaceAllString(s, ""))
}

// ---------------------------------------------------------------------------------------
// Native replay

const replayTestSrc = `package PKG

import (
	"fmt"
	"os"
	"testing"
)

func TestVerifReplay(t *testing.T) {
	name := os.Getenv("VERIF_ENTRY")
	fn := vHarnesses[name]
	if fn == nil {
		fmt.Println("REPLAY-OUTCOME: NOENTRY " + name)
		t.Fatalf("no harness %s", name)
	}
	os.Setenv("VERIF_TMP", t.TempDir())
	out := VerifReplay(name, fn)
	fmt.Println("REPLAY-OUTCOME: " + out)
	if out != "OK" && out != "ASSUME-FAILED" {
		t.Fatalf("%s", out)
	}
}
`

func replayFinding(p *PropCheck, f Finding) (bool, string, string) {
	h := sha1.Sum([]byte(f.Signature() + f.Inputs))
	dir := filepath.Join(verifDir(), "replays", p.ID, fmt.Sprintf("%x", h[:6]))
	os.MkdirAll(dir, 0o755)
	if f.Replay != nil {
		ok, detail := f.Replay(dir)
		return ok, detail, dir
	}
	if f.Entry == "" && f.Test == "" {
		return false, "no native replay for this obligation", dir
	}
	os.WriteFile(filepath.Join(dir, "model.json"), []byte(orEmptyObj(f.Inputs)), 0o644)
	// copy harness files and build the overlay
	ov := harnessOverlay([]string{f.PkgDir})
	for k, v := range harnessTestOverlay([]string{f.PkgDir}) {
		ov[k] = v
	}
	for _, ins := range f.Instr {
		src, err := os.ReadFile(filepath.Join(repoDir(), ins.File))
		if err != nil {
			return false, "cannot instrument " + ins.File, dir
		}
		lines := strings.Split(string(src), "\n")
		done := false
		for i := 0; i < len(lines); i++ {
			if strings.Contains(lines[i], ins.Anchor) {
				at := i + 1
				if ins.Before {
					at = i
				}
				lines = append(lines[:at], append([]string{ins.Text}, lines[at:]...)...)
				done = true
				i++
				if !ins.All {
					break
				}
			}
		}
		if !done {
			return false, "replay anchor not found in " + ins.File + " (source changed)", dir
		}
		ov[filepath.Join(repoDir(), ins.File)] = []byte(strings.Join(lines, "\n"))
	}
	repl := map[string]string{}
	pkgName := ""
	for virt, content := range ov {
		local := filepath.Join(dir, filepath.Base(virt))
		os.WriteFile(local, content, 0o644)
		repl[virt] = local
		if pkgName == "" {
			for _, l := range strings.Split(string(content), "\n") {
				if strings.HasPrefix(l, "package ") {
					pkgName = strings.TrimSpace(strings.TrimPrefix(l, "package "))
					break
				}
			}
		}
	}
	testLocal := filepath.Join(dir, "zz_verif_replay_test.go")
	os.WriteFile(testLocal, []byte(strings.Replace(replayTestSrc, "package PKG", "package "+pkgName, 1)), 0o644)
	repl[filepath.Join(repoDir(), f.PkgDir, "zz_verif_replay_test.go")] = testLocal
	ovj, _ := json.MarshalIndent(map[string]interface{}{"Replace": repl}, "", " ")
	os.WriteFile(filepath.Join(dir, "overlay.json"), ovj, 0o644)
	meta, _ := json.MarshalIndent(map[string]string{"property": p.ID, "signature": f.Signature(), "entry": f.Entry, "pkg": f.PkgDir, "repo": repoDir()}, "", " ")
	os.WriteFile(filepath.Join(dir, "meta.json"), meta, 0o644)
	tmo := "120s"
	if f.Kind == "hang" || f.Kind == "blocked" {
		tmo = "25s"
	}
	test := "TestVerifReplay"
	if f.Test != "" {
		test = f.Test
	}
	run := fmt.Sprintf("#!/bin/sh\n# replays the counterexample against the real build; prints REPLAY-OUTCOME\ncd %s && env -u GOTOOLCHAIN GOFLAGS=-mod=mod GOPROXY=off VERIF_ENTRY=%s VERIF_MODEL=%s/model.json go test -v -vet=off -count=1 -timeout "+tmo+" -run '^%s$' -overlay %s/overlay.json ./%s/ 2>&1\n",
		repoDir(), f.Entry, dir, test, dir, f.PkgDir)
	os.WriteFile(filepath.Join(dir, "run.sh"), []byte(run), 0o755)
	ok, detail := execReplay(dir)
	return ok, detail, dir
}

var replayCount int64

func execReplay(dir string) (bool, string) {
	atomic.AddInt64(&replayCount, 1)
	cmd := exec.Command("/bin/sh", filepath.Join(dir, "run.sh"))
	cmd.Env = cleanGoEnv()
	out, _ := cmd.CombinedOutput()
	txt := string(out)
	os.WriteFile(filepath.Join(dir, "last_output.txt"), out, 0o644)
	for _, l := range strings.Split(txt, "\n") {
		if i := strings.Index(l, "REPLAY-OUTCOME: "); i >= 0 {
			o := l[i+len("REPLAY-OUTCOME: "):]
			if strings.HasPrefix(o, "ASSERT-FAILED") || strings.HasPrefix(o, "PANIC") {
				return true, o
			}
			return false, o
		}
	}
	if strings.Contains(txt, "panic:") || strings.Contains(txt, "fatal error:") {
		return true, "PANIC (process crashed)"
	}
	if strings.Contains(txt, "test timed out") {
		return true, "HANG (test timed out)"
	}
	last := txt
	if len(last) > 300 {
		last = last[len(last)-300:]
	}
	return false, "no outcome line: " + strings.ReplaceAll(last, "\n", " / ")
}

// cleanGoEnv: replays build with the repository's own toolchain (default go, GOTOOLCHAIN auto)
func cleanGoEnv() []string {
	var env []string
	for _, e := range os.Environ() {
		if strings.HasPrefix(e, "GOTOOLCHAIN=") || strings.HasPrefix(e, "GOFLAGS=") || strings.HasPrefix(e, "PATH=") {
			continue
		}
		env = append(env, e)
	}
	path := os.Getenv("PATH")
	// drop the go1.26.8 bin dir that the wrapper put first
	var parts []string
	for _, d := range strings.Split(path, ":") {
		if strings.Contains(d, "go1.26.8") {
			continue
		}
		parts = append(parts, d)
	}
	env = append(env, "PATH="+strings.Join(parts, ":"))
	return env
}

func replayDir(dir string) int {
	ok, detail := execReplay(dir)
	fmt.Println(detail)
	if ok {
		fmt.Println("reproduced")
		return 1
	}
	return 0
}

// ---------------------------------------------------------------------------------------
// Evidence

func writeEvidence(p *PropCheck, tier string, seed int, jobs []*Job, findings []Finding, extra map[string]interface{}, wall float64, violations int) {
	cov := map[string]interface{}{}
	paths, queries, discharged, asserts, trivial := 0, 0, 0, 0, 0
	var steps int64
	var samples []interface{}
	var obl []interface{}
	outcomes := map[string]int{}
	trunc := map[string]int{}
	covers := 0
	vacuous := 0
	distinct := 0
	for _, j := range jobs {
		r := &j.res
		paths += r.Paths
		queries += r.Queries
		discharged += r.Discharged
		trivial += r.Trivial
		steps += r.Steps
		asserts += len(r.AssertSites)
		distinct += len(r.AssertSites)
		for k, v := range r.Outcomes {
			outcomes[k] += v
		}
		for k, v := range r.Truncated {
			trunc[k] += v
		}
		covers += len(r.Covers)
		for _, s := range r.Samples {
			if len(samples) < 10 {
				samples = append(samples, s)
			}
		}
		o := map[string]interface{}{"id": j.ID, "entry": j.Entry, "desc": j.Desc, "paths": r.Paths, "outcomes": r.Outcomes,
			"assert_sites": len(r.AssertSites), "discharged_queries": r.Discharged, "folded_trivially": r.Trivial, "solver_queries": r.Queries,
			"violating_models": len(r.Violations), "wall_s": round2(r.Wall), "max_formula_nodes": r.MaxTermSize}
		if len(r.Inconclusive) > 0 {
			o["inconclusive"] = r.Inconclusive
		}
		if len(r.Truncated) > 0 {
			o["outside_bound"] = r.Truncated
		}
		if len(r.Covers) > 0 {
			var cs []string
			for c := range r.Covers {
				cs = append(cs, c)
			}
			sort.Strings(cs)
			o["reachability_witnesses"] = cs
		}
		if r.Paths > 0 && r.Outcomes["assume-false"] == r.Paths {
			vacuous++
		}
		if len(r.Notes) > 0 {
			o["notes"] = r.Notes
		}
		obl = append(obl, o)
	}
	if len(samples) == 0 {
		samples = append(samples, fmt.Sprintf("%s: %d obligations, %d paths", p.ID, len(jobs), paths))
	}
	cov["evaluations"] = int(atomic.LoadInt64(&gStats.Queries))
	cov["distinct_nontrivial"] = distinct
	cov["rule"] = "evaluations = SMT queries issued by this run (feasibility + deciding); distinct_nontrivial = distinct assertion sites (harness obligation x source line) reached on some feasible path whose deciding query went to the solver or folded; " + p.Rule
	cov["samples"] = samples
	cov["explanation"] = p.Explanation
	cov["obligations"] = len(jobs) + intOr(extra["extra_obligations"])
	okObl := 0
	for _, j := range jobs {
		if len(j.res.Violations) == 0 && len(j.res.Inconclusive) == 0 && len(j.res.UnknownAsserts) == 0 {
			okObl++
		}
	}
	cov["discharged"] = okObl + intOr(extra["extra_discharged"])
	cov["checker_cmd"] = fmt.Sprintf("./check %s %s", p.ID, tier)
	cov["trusted_base"] = append([]string{"go/ssa translation (x/tools v0.50.0)", "symgo interpreter and stdlib models (DESIGN §2.3, §8)", "z3 5.1.0 (primary); z3 4.8.12 and cvc5 1.0.3 as cross-checks in the thorough tier"}, p.Trusted...)
	cov["paths_explored"] = paths
	cov["ssa_instructions_executed"] = steps
	cov["path_outcomes"] = outcomes
	cov["outside_bound_paths"] = trunc
	cov["assert_sites"] = asserts
	cov["deciding_queries_unsat"] = discharged
	cov["asserts_folded_by_simplifier"] = trivial
	cov["reachability_witnesses"] = covers
	cov["vacuous_obligations"] = vacuous
	cov["obligation_details"] = obl
	cov["native_replays_run"] = int(atomic.LoadInt64(&replayCount))
	cov["solver"] = map[string]interface{}{
		"queries": gStats.Queries, "sat": gStats.Sat, "unsat": gStats.Unsat, "unknown": gStats.Unknown, "errors": gStats.Errors, "incremental_gave_up_then_one_shot": gStats.Fallbacks,
		"primary_seconds": round2(float64(gStats.Nanos) / 1e9),
		"cross_checked": gStats.CrossChecked, "cross_agree": gStats.CrossAgree, "cross_timeout": gStats.CrossTimeout, "cross_disagree": gStats.CrossDisagree,
	}
	if p.Bounds != nil {
		cov["bounds"] = p.Bounds(tier)
	}
	if p.Level == "model_checking" {
		st := paths
		if st < 1 {
			st = 1
		}
		tr := int(steps)
		if tr < 1 {
			tr = 1
		}
		cov["states"] = st
		cov["transitions"] = intOr(extra["transitions"])
		if cov["transitions"].(int) < 1 {
			cov["transitions"] = queries + 1
		}
		cov["traces_validated_against_impl"] = intOr(extra["traces_validated"])
	}
	for k, v := range extra {
		cov[k] = v
	}
	funcs := map[string]bool{}
	for _, j := range jobs {
		for f := range j.res.Funcs {
			funcs[f] = true
		}
	}
	if len(funcs) > 0 {
		var fl []string
		for f := range funcs {
			fl = append(fl, f)
		}
		sort.Strings(fl)
		cov["functions_encoded"] = fl
	}
	ev := map[string]interface{}{
		"property_id": p.ID, "tier": tier, "seed": seed, "level": p.Level, "coverage": cov,
		"assumptions": p.Assumptions, "wall_s": round2(wall), "violations": violations,
	}
	b, _ := json.MarshalIndent(ev, "", " ")
	os.MkdirAll(filepath.Join(verifDir(), "evidence"), 0o755)
	os.WriteFile(filepath.Join(verifDir(), "evidence", p.ID+".json"), b, 0o644)
}

func intOr(v interface{}) int {
	switch x := v.(type) {
	case int:
		return x
	case int64:
		return int(x)
	case float64:
		return int(x)
	}
	return 0
}

func round2(f float64) float64 { return float64(int(f*100)) / 100 }
