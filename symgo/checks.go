package main

func mainCheck(args []string) int { return 2 }
