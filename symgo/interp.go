package main

// Symbolic interpreter over go/ssa. One Interp = one path execution; paths are explored by
// re-execution with a recorded decision prefix (no heap cloning).

import (
	"fmt"
	"os"
	"sync"
	"go/ast"
	"go/constant"
	"go/token"
	"go/types"
	"sort"
	"strings"

	"golang.org/x/tools/go/ssa"
)

type pathEnd struct {
	kind string // "inconclusive" | "blocked" | "exit" | "assume-false" | "truncated" | "stop"
	msg  string
}

type goPanic struct {
	val     Value
	msg     string
	runtime bool
	site    string
	fn      string
}

type deferred struct {
	fnv  Value
	args []Value
	call *ssa.CallCommon
}

type frame struct {
	fn       *ssa.Function
	env      map[ssa.Value]Value
	block    *ssa.BasicBlock
	prev     *ssa.BasicBlock
	defers   []deferred
	tolerant bool
	caller   *frame
	panicking *goPanic
	recovered bool
	bind     []Value
	visits   map[*ssa.BasicBlock]int
	harness  bool
}

type pendingGo struct {
	fnv   Value
	args  []Value
	call  *ssa.CallCommon
	label string
	done  bool
}

type Violation struct {
	Msg    string
	Site   string
	Model  Model
	Kind   string // "assert" | "panic" | "alloc" | "blocked" | ...
	Extra  map[string]string
	Decisions []int
}

type Interp struct {
	prog *ssa.Program
	ctx  *Ctx
	sol  *Solver
	job  *Job

	prefix   []int
	taken    []int
	feasKnown []bool
	alts     [][]int // new work discovered in this path
	pc       []*Term
	model    Model
	globals  map[*ssa.Global]*Cell
	initDone map[*ssa.Package]bool
	objSeq   int
	names    map[string]int
	pending  []*pendingGo
	mutex    map[*Cell]int
	steps    int
	depth    int
	violations []Violation
	covers   map[string]bool
	unwind   map[*ssa.BasicBlock]int
	fs       *FSModel
	allocs   []AllocEvent
	mapSeq   int
	ghost    map[string]Value
	panicStack []*frame
	curPos   token.Pos
	curFunc  *ssa.Function
	nQueries int
	inputs   []InputDecl // symbolic inputs declared by the harness (for replay models)
	notes    []string
	timeNow  *Term
	chanSeq  int
	pcH1, pcH2 uint64
	skipStub *ssa.Function
	ts       *threadSys
	tags     []string
	timerFires int
	externalCtxs []*CtxObj
	onFSEffect func(it *Interp, e FSEffect)
	fsFaultsOff bool
	cache    *SatCache
	funcs    map[string]bool
	probes   map[string]Value
	ghostT   types.Type
}

type InputDecl struct {
	Name string
	Kind string // u8,u16,u32,u64,i64,int,bool,bytes,string,choice
	N    int
	Terms []*Term
	Choice int
}

type AllocEvent struct {
	Site  string
	Bytes *Term // 64-bit
	Count *Term
}

func (it *Interp) timerMayFire() bool {
	return it.job.TimerBudget == 0 || it.timerFires < it.job.TimerBudget
}

func (it *Interp) site() string {
	if !it.curPos.IsValid() {
		return "?"
	}
	p := it.prog.Fset.Position(it.curPos)
	return fmt.Sprintf("%s:%d", shortFile(p.Filename), p.Line)
}

func (it *Interp) fnName() string {
	if it.curFunc == nil {
		return "?"
	}
	return funcName(it.curFunc)
}

var fnNameCache sync.Map

func funcName(fn *ssa.Function) string {
	if v, ok := fnNameCache.Load(fn); ok {
		return v.(string)
	}
	s := fn.String()
	fnNameCache.Store(fn, s)
	return s
}

func (it *Interp) inconclusive(msg string) {
	panic(pathEnd{"inconclusive", msg + " @" + it.site()})
}

func (it *Interp) fresh(name string, s Sort) *Term {
	it.names[name]++
	n := name
	if it.names[name] > 1 {
		n = fmt.Sprintf("%s#%d", name, it.names[name])
	}
	return it.ctx.Var(n, s)
}

// ---------------------------------------------------------------------------------------
// Decisions

func (it *Interp) assume(c *Term) {
	if c.IsTrue() {
		return
	}
	it.pc = append(it.pc, c)
	it.pcH1 = (it.pcH1 ^ uint64(c.id)) * 1099511628211
	it.pcH2 = (it.pcH2+uint64(c.id)*0x9E3779B97F4A7C15)*0xBF58476D1CE4E5B9 ^ (it.pcH2 >> 29)
	it.sol.Assert(c)
	if it.model != nil && it.ctx.Eval(c, it.model, nil) != 1 {
		it.model = nil
	}
}

func (it *Interp) canUseModel() bool { return it.model != nil && len(it.ctx.UFs) == 0 }

// sat checks pc ∧ c.
func (it *Interp) sat(c *Term) (string, Model) {
	if c.IsFalse() {
		return "unsat", nil
	}
	key := [3]uint64{it.pcH1, it.pcH2, uint64(c.id)}
	if e, ok := it.cache.m[key]; ok && e.n == len(it.pc) {
		it.cache.hits++
		return e.res, e.model
	}
	it.nQueries++
	if d := os.Getenv("SYMGO_DUMP_ALL"); d != "" {
		os.WriteFile(fmt.Sprintf("%s/b_%06d.smt2", d, it.nQueries), []byte(it.sol.Script(c)), 0o644)
	}
	r, m := it.sol.Check(true, c)
	if r == "sat" || r == "unsat" {
		it.cache.m[key] = satEntry{res: r, model: m, n: len(it.pc)}
	}
	return r, m
}

type satEntry struct {
	res   string
	model Model
	n     int
}

// SatCache memoises solver answers per (path-condition sequence, query term) within one term table.
type SatCache struct {
	m    map[[3]uint64]satEntry
	hits int
}

func newSatCache() *SatCache { return &SatCache{m: map[[3]uint64]satEntry{}} }

// decide picks one of the mutually exclusive, jointly exhaustive conditions.
func (it *Interp) decide(conds []*Term, what string) int {
	// constant short cut
	nTrue := -1
	allConst := true
	for i, c := range conds {
		if c.IsTrue() {
			nTrue = i
		}
		if !c.IsConst() {
			allConst = false
		}
	}
	if nTrue >= 0 {
		return nTrue
	}
	if allConst {
		panic(pathEnd{"assume-false", "no alternative in " + what})
	}
	k := len(it.taken)
	if k < len(it.prefix) {
		d := it.prefix[k]
		it.taken = append(it.taken, d)
		it.assume(conds[d])
		return d
	}
	// new decision point: find feasible alternatives
	var feas []int
	modelFor := map[int]Model{}
	unknown := false
	for i, c := range conds {
		if c.IsFalse() {
			continue
		}
		if it.canUseModel() && it.ctx.Eval(c, it.model, nil) == 1 {
			feas = append(feas, i)
			modelFor[i] = it.model
			continue
		}
		// if all others are infeasible and this is the last, pc-sat implies it is feasible
		if i == len(conds)-1 && len(feas) == 0 && !unknown {
			feas = append(feas, i)
			continue
		}
		r, m := it.sat(c)
		switch r {
		case "sat":
			feas = append(feas, i)
			modelFor[i] = m
		case "unsat":
		default:
			// unknown: keep the side, mark path unproven-feasible
			unknown = true
			feas = append(feas, i)
			it.notes = append(it.notes, "unproven-feasible branch at "+what)
		}
	}
	if len(feas) == 0 {
		panic(pathEnd{"assume-false", "no feasible alternative in " + what})
	}
	d := feas[0]
	for _, o := range feas[1:] {
		alt := append(append([]int{}, it.taken...), o)
		it.alts = append(it.alts, alt)
	}
	it.taken = append(it.taken, d)
	if m, ok := modelFor[d]; ok && m != nil {
		it.model = m
	} else {
		it.model = nil
	}
	it.assume(conds[d])
	return d
}

func (it *Interp) branch(c *Term, what string) bool {
	if c.IsTrue() {
		return true
	}
	if c.IsFalse() {
		return false
	}
	return it.decide([]*Term{c, it.ctx.Not(c)}, what) == 0
}

// concretize forks over the feasible values of t in [0, n).
func (it *Interp) concretize(t *Term, n int, what string) int {
	if t.IsConst() {
		return int(t.V)
	}
	K := it.job.MaxSymAlloc
	if n > 2*K+8 && !strings.HasPrefix(what, "choice ") && what != "json length" {
		// large range: follow the small values and the maximum, the rest is outside the bound
		conds := make([]*Term, 0, K+3)
		vals := make([]int, 0, K+3)
		var rest []*Term
		for i := 0; i <= K; i++ {
			c := it.ctx.Eq(t, it.ctx.BV(uint64(i), t.S.W))
			conds = append(conds, c)
			vals = append(vals, i)
			rest = append(rest, it.ctx.Not(c))
		}
		c := it.ctx.Eq(t, it.ctx.BV(uint64(n-1), t.S.W))
		conds = append(conds, c)
		vals = append(vals, n-1)
		rest = append(rest, it.ctx.Not(c))
		conds = append(conds, it.ctx.And(rest...))
		d := it.decide(conds, what)
		if d == len(conds)-1 {
			panic(pathEnd{"truncated", fmt.Sprintf("symbolic size/index with range %d followed only for 0..%d and %d (%s, outside bound)", n, K, n-1, what)})
		}
		return vals[d]
	}
	conds := make([]*Term, n)
	for i := 0; i < n; i++ {
		conds[i] = it.ctx.Eq(t, it.ctx.BV(uint64(i), t.S.W))
	}
	return it.decide(conds, what)
}

// ---------------------------------------------------------------------------------------
// Panics

func (it *Interp) rtPanic(msg string) {
	panic(&goPanic{val: &IfaceV{T: runtimeErrT, V: it.constString("runtime error: " + msg)}, msg: "runtime error: " + msg, runtime: true, site: it.site()})
}

var runtimeErrT types.Type = types.NewNamed(types.NewTypeName(token.NoPos, nil, "runtime.Error", nil), types.NewStruct(nil, nil), nil)

// ---------------------------------------------------------------------------------------
// Globals and package init

func (it *Interp) globalCell(g *ssa.Global) *Cell {
	if c, ok := it.globals[g]; ok {
		return c
	}
	pt := g.Type().(*types.Pointer)
	c := it.newCell(pt.Elem(), it.newObject("global "+g.Name()))
	it.globals[g] = c
	if g.Pkg != nil && !it.initDone[g.Pkg] {
		it.initDone[g.Pkg] = true
		it.runInit(g.Pkg)
	}
	return it.globals[g]
}

func (it *Interp) runInit(pkg *ssa.Package) {
	initFn := pkg.Func("init")
	if initFn == nil || initFn.Blocks == nil {
		return
	}
	savePos, saveFunc := it.curPos, it.curFunc
	defer func() {
		it.curPos, it.curFunc = savePos, saveFunc
		if r := recover(); r != nil {
			if pe, ok := r.(pathEnd); ok && pe.kind == "inconclusive" {
				it.notes = append(it.notes, "init of "+pkg.Pkg.Path()+" stopped: "+pe.msg)
				return
			}
			if _, ok := r.(*goPanic); ok {
				it.notes = append(it.notes, "init of "+pkg.Pkg.Path()+" panicked")
				return
			}
			panic(r)
		}
	}()
	fr := &frame{fn: initFn, env: map[ssa.Value]Value{}, tolerant: true}
	it.run(fr)
}

// ---------------------------------------------------------------------------------------
// Calls

func (it *Interp) callValue(fnv Value, args []Value, site *ssa.CallCommon) Value {
	switch f := fnv.(type) {
	case *ssa.Function:
		return it.call(f, args, nil)
	case *Closure:
		if f == nil {
			it.rtPanic("invalid memory address or nil pointer dereference (nil func)")
		}
		return it.call(f.fn, args, f.bind)
	case *BoundMethod:
		return it.call(f.fn, append([]Value{f.recv}, args...), nil)
	case *ssa.Builtin:
		return it.builtin(f.Name(), args, site)
	case *EngineFunc:
		return f.f(it, args)
	}
	it.inconclusive(fmt.Sprintf("call of %T", fnv))
	return nil
}

type EngineFunc struct {
	name string
	f    func(it *Interp, args []Value) Value
}

func (it *Interp) call(fn *ssa.Function, args []Value, bind []Value) Value {
	name := funcName(fn)
	if it.job.Stubs != nil && it.skipStub != fn {
		if h, ok := it.job.Stubs[name]; ok {
			return h(it, fn, args)
		}
	}
	it.skipStub = nil
	if h, ok := intercepts[name]; ok {
		return h(it, fn, args)
	}
	if fn.Pkg != nil || fn.Origin() != nil {
		if h := harnessAPI[fn.Name()]; h != nil && it.isHarnessFn(fn) {
			return h(it, fn, args)
		}
	}
	if h := interceptByPrefix(name); h != nil {
		return h(it, fn, args)
	}
	if fn.Blocks == nil {
		if h, ok := leafModels[name]; ok {
			return h(it, fn, args)
		}
		it.inconclusive("unmodelled external function " + name)
	}
	for _, c := range it.job.CutCalls {
		if strings.HasSuffix(name, c) {
			panic(pathEnd{"truncated", "call of " + c + " (outside this unit)"})
		}
	}
	if it.job.DenyCall != nil && it.job.DenyCall(name) {
		it.inconclusive("unmodelled call " + name)
	}
	it.depth++
	if it.depth > 400 {
		it.inconclusive("call depth exceeded in " + name)
	}
	fr := &frame{fn: fn, env: make(map[ssa.Value]Value, 16), bind: bind}
	if it.job.Unwind > 0 {
		fr.harness = it.isHarnessFn(fn) || (fn.Parent() != nil && it.isHarnessFn(fn.Parent()))
	}
	if fn.Pkg != nil && strings.HasPrefix(fn.Pkg.Pkg.Path(), repoModule) && !it.isHarnessFn(fn) {
		it.funcs[name] = true
	}
	for i, p := range fn.Params {
		if i < len(args) {
			fr.env[p] = args[i]
		}
	}
	for i, fv := range fn.FreeVars {
		if i < len(bind) {
			fr.env[fv] = bind[i]
		}
	}
	res := it.runFrame(fr)
	it.depth--
	return res
}

func (it *Interp) isHarnessFn(fn *ssa.Function) bool {
	pos := fn.Pos()
	if !pos.IsValid() {
		return false
	}
	f := it.prog.Fset.File(pos)
	return f != nil && strings.Contains(f.Name(), "zz_verif")
}

// runFrame executes a frame with Go defer/recover semantics.
func (it *Interp) runFrame(fr *frame) (result Value) {
	savePos, saveFunc := it.curPos, it.curFunc
	defer func() {
		it.curPos, it.curFunc = savePos, saveFunc
		r := recover()
		if r == nil {
			return
		}
		gp, ok := r.(*goPanic)
		if !ok {
			panic(r)
		}
		if gp.fn == "" {
			gp.fn = funcName(fr.fn)
		}
		// interpreted panic: run this frame's defers, allow recover
		fr.panicking = gp
		it.panicStack = append(it.panicStack, fr)
		func() {
			defer func() { it.panicStack = it.panicStack[:len(it.panicStack)-1] }()
			it.runDefers(fr)
		}()
		if fr.recovered {
			fr.panicking = nil
			if fr.fn.Recover != nil {
				fr.block = fr.fn.Recover
				fr.prev = nil
				result = it.run(fr)
			} else {
				result = it.zeroResults(fr.fn)
			}
			return
		}
		panic(gp)
	}()
	return it.run(fr)
}

func (it *Interp) zeroResults(fn *ssa.Function) Value {
	res := fn.Signature.Results()
	switch res.Len() {
	case 0:
		return nil
	case 1:
		return it.zero(res.At(0).Type())
	}
	return it.zero(res)
}

func (it *Interp) runDefers(fr *frame) {
	for len(fr.defers) > 0 {
		d := fr.defers[len(fr.defers)-1]
		fr.defers = fr.defers[:len(fr.defers)-1]
		it.callValue(d.fnv, d.args, d.call)
	}
}

func (it *Interp) get(fr *frame, v ssa.Value) Value {
	switch x := v.(type) {
	case *ssa.Const:
		return it.constValue(x)
	case *ssa.Function:
		return x
	case *ssa.Builtin:
		return x
	case *ssa.Global:
		return &Ptr{c: it.globalCell(x)}
	}
	if r, ok := fr.env[v]; ok {
		return r
	}
	if fr.tolerant {
		return Unknown{"undefined " + v.Name()}
	}
	it.inconclusive(fmt.Sprintf("unbound value %s in %s", v.Name(), fr.fn.Name()))
	return nil
}

func (it *Interp) constValue(c *ssa.Const) Value {
	t := c.Type()
	if c.Value == nil {
		return it.zero(t)
	}
	if w, _, ok := isInt(t); ok {
		if c.Value.Kind() == constant.Float {
			f, _ := constant.Float64Val(c.Value)
			return it.ctx.BV(uint64(int64(f)), w)
		}
		if u, ok := constant.Uint64Val(constant.ToInt(c.Value)); ok {
			return it.ctx.BV(u, w)
		}
		i, _ := constant.Int64Val(constant.ToInt(c.Value))
		return it.ctx.BV(uint64(i), w)
	}
	if isBool(t) {
		return it.ctx.Bool(constant.BoolVal(c.Value))
	}
	if isString(t) {
		return it.constString(constant.StringVal(c.Value))
	}
	if isFloat(t) {
		f, _ := constant.Float64Val(c.Value)
		return it.ctx.FPConst(f)
	}
	// generic zero etc.
	if _, ok := t.Underlying().(*types.Interface); ok {
		return it.zero(t)
	}
	return Unknown{"const of type " + t.String()}
}

func (it *Interp) run(fr *frame) Value {
	if fr.block == nil {
		fr.block = fr.fn.Blocks[0]
	}
	for {
		b := fr.block
		// phis
		nphi := 0
		if fr.prev != nil {
			var vals []Value
			idx := -1
			for i, p := range b.Preds {
				if p == fr.prev {
					idx = i
					break
				}
			}
			for _, ins := range b.Instrs {
				phi, ok := ins.(*ssa.Phi)
				if !ok {
					break
				}
				vals = append(vals, it.get(fr, phi.Edges[idx]))
				nphi++
			}
			for i := 0; i < nphi; i++ {
				fr.env[b.Instrs[i].(*ssa.Phi)] = vals[i]
			}
		} else {
			for _, ins := range b.Instrs {
				if _, ok := ins.(*ssa.Phi); ok {
					nphi++
				} else {
					break
				}
			}
		}
		var next *ssa.BasicBlock
		for _, ins := range b.Instrs[nphi:] {
			it.steps++
			if it.steps > it.job.MaxSteps {
				panic(pathEnd{"inconclusive", "step budget exceeded"})
			}
			if pos := ins.Pos(); pos.IsValid() {
				it.curPos = pos
			}
			it.curFunc = fr.fn
			var done bool
			var ret Value
			if fr.tolerant {
				next, ret, done = it.execTolerant(fr, ins)
			} else {
				next, ret, done = it.exec(fr, ins)
			}
			if done {
				return ret
			}
			if next != nil {
				break
			}
		}
		if next == nil {
			it.inconclusive("block fell through in " + fr.fn.Name())
		}
		// loop unwinding guard: count back-edges taken via symbolic decisions is implicit in step budget;
		// explicit per-block visit bound:
		if it.job.Unwind > 0 && !fr.harness {
			if fr.visits == nil {
				fr.visits = map[*ssa.BasicBlock]int{}
			}
			fr.visits[next]++
			if fr.visits[next] > it.job.Unwind {
				panic(pathEnd{"unwind", fmt.Sprintf("unwinding bound %d reached at %s", it.job.Unwind, it.site())})
			}
		}
		fr.prev = b
		fr.block = next
	}
}

func shortFile(f string) string {
	if i := strings.Index(f, "/repo/"); i >= 0 {
		return f[i+6:]
	}
	if i := strings.LastIndex(f, "/src/"); i >= 0 {
		return f[i+5:]
	}
	return f
}

func (it *Interp) execTolerant(fr *frame, ins ssa.Instruction) (next *ssa.BasicBlock, ret Value, done bool) {
	defer func() {
		if r := recover(); r != nil {
			if pe, ok := r.(pathEnd); ok && pe.kind == "inconclusive" {
				if v, ok := ins.(ssa.Value); ok {
					fr.env[v] = Unknown{pe.msg}
					next, ret, done = nil, nil, false
					return
				}
				switch ins.(type) {
				case *ssa.Store, *ssa.MapUpdate, *ssa.DebugRef:
					next, ret, done = nil, nil, false
					return
				}
			}
			panic(r)
		}
	}()
	if c, ok := ins.(*ssa.Call); ok {
		if f, ok := c.Call.Value.(*ssa.Function); ok && f.Name() == "init" && f.Pkg != fr.fn.Pkg {
			fr.env[c] = nil
			return nil, nil, false
		}
	}
	return it.exec(fr, ins)
}

func (it *Interp) term(v Value, what string) *Term {
	t, ok := v.(*Term)
	if !ok {
		if u, isU := v.(Unknown); isU {
			it.inconclusive("use of unknown value (" + u.Why + ") in " + what)
		}
		it.inconclusive(fmt.Sprintf("expected scalar in %s, got %T", what, v))
	}
	return t
}

func (it *Interp) exec(fr *frame, ins ssa.Instruction) (next *ssa.BasicBlock, ret Value, done bool) {
	switch x := ins.(type) {
	case *ssa.DebugRef:
		if it.job.Probe != nil && !x.IsAddr {
			if id, ok := x.Expr.(*ast.Ident); ok {
				if it.job.Probe(it, fr.fn, id.Name, it.get(fr, x.X)) {
					panic(pathEnd{"stop", "probe"})
				}
			}
		}
	case *ssa.Alloc:
		pt := x.Type().(*types.Pointer)
		lbl := x.Comment
		c := it.newCell(pt.Elem(), it.newObject(lbl))
		fr.env[x] = &Ptr{c: c}
	case *ssa.BinOp:
		fr.env[x] = it.binop(x.Op, it.get(fr, x.X), it.get(fr, x.Y), x.X.Type(), x.Y.Type())
	case *ssa.UnOp:
		fr.env[x] = it.unop(fr, x)
	case *ssa.Call:
		fr.env[x] = it.doCall(fr, &x.Call)
	case *ssa.ChangeInterface:
		fr.env[x] = it.get(fr, x.X)
	case *ssa.ChangeType:
		fr.env[x] = it.get(fr, x.X)
	case *ssa.Convert:
		fr.env[x] = it.convert(it.get(fr, x.X), x.X.Type(), x.Type())
	case *ssa.Extract:
		tv, ok := it.get(fr, x.Tuple).(TupleV)
		if !ok {
			it.inconclusive("extract from non-tuple")
		}
		fr.env[x] = tv[x.Index]
	case *ssa.Field:
		sv, ok := it.get(fr, x.X).(*StructV)
		if !ok {
			it.inconclusive("field of non-struct value")
		}
		fr.env[x] = sv.fields[x.Field]
	case *ssa.FieldAddr:
		p := it.ptr(it.get(fr, x.X))
		c := it.resolve(p)
		fr.env[x] = &Ptr{c: c.kids[x.Field]}
	case *ssa.Index:
		fr.env[x] = it.indexValue(it.get(fr, x.X), it.get(fr, x.Index), x.Index.Type())
	case *ssa.IndexAddr:
		fr.env[x] = it.indexAddr(it.get(fr, x.X), it.get(fr, x.Index), x.Index.Type())
	case *ssa.Lookup:
		fr.env[x] = it.lookup(it.get(fr, x.X), it.get(fr, x.Index), x)
	case *ssa.MakeChan:
		n := it.term(it.get(fr, x.Size), "chan size")
		if !n.IsConst() {
			it.inconclusive("symbolic channel capacity")
		}
		it.chanSeq++
		fr.env[x] = &ChanObj{cp: int(n.V), elem: x.Type().Underlying().(*types.Chan).Elem(), id: it.chanSeq}
	case *ssa.MakeClosure:
		b := make([]Value, len(x.Bindings))
		for i, bv := range x.Bindings {
			b[i] = it.get(fr, bv)
		}
		fr.env[x] = &Closure{fn: x.Fn.(*ssa.Function), bind: b}
	case *ssa.MakeInterface:
		fr.env[x] = &IfaceV{T: x.X.Type(), V: it.get(fr, x.X)}
	case *ssa.MakeMap:
		it.mapSeq++
		fr.env[x] = &MapObj{typ: x.Type().Underlying().(*types.Map), id: it.mapSeq}
	case *ssa.MakeSlice:
		fr.env[x] = it.makeSlice(x, it.get(fr, x.Len), it.get(fr, x.Cap))
	case *ssa.MapUpdate:
		m, _ := it.get(fr, x.Map).(*MapObj)
		if m == nil {
			panic(&goPanic{msg: "assignment to entry in nil map", runtime: true, site: it.site()})
		}
		it.mapSet(m, it.get(fr, x.Key), it.get(fr, x.Value))
	case *ssa.Range:
		fr.env[x] = it.makeIter(it.get(fr, x.X))
	case *ssa.Next:
		fr.env[x] = it.iterNext(it.get(fr, x.Iter).(*IterV), x)
	case *ssa.Phi:
		it.inconclusive("phi in the middle of a block")
	case *ssa.Select:
		fr.env[x] = it.doSelect(fr, x)
	case *ssa.Send:
		it.chanSend(it.get(fr, x.Chan), it.get(fr, x.X))
	case *ssa.Slice:
		fr.env[x] = it.doSlice(fr, x)
	case *ssa.SliceToArrayPointer:
		s := it.get(fr, x.X).(*SliceV)
		at := x.Type().(*types.Pointer).Elem().Underlying().(*types.Array)
		n := int(at.Len())
		if s.ln < n {
			it.rtPanic("cannot convert slice to array pointer: length too short")
		}
		if s.arr == nil {
			fr.env[x] = &Ptr{}
		} else {
			sub := &Cell{typ: at, obj: s.arr.obj, kids: s.arr.kids[s.off : s.off+n]}
			fr.env[x] = &Ptr{c: sub}
		}
	case *ssa.Store:
		p := it.ptr(it.get(fr, x.Addr))
		it.store(p, it.get(fr, x.Val))
	case *ssa.TypeAssert:
		fr.env[x] = it.typeAssert(x, it.get(fr, x.X))
	case *ssa.MultiConvert:
		fr.env[x] = it.convert(it.get(fr, x.X), x.X.Type(), x.Type())
	case *ssa.If:
		c := it.term(it.get(fr, x.Cond), "if")
		if it.branch(c, "if@"+it.site()) {
			return fr.block.Succs[0], nil, false
		}
		return fr.block.Succs[1], nil, false
	case *ssa.Jump:
		return fr.block.Succs[0], nil, false
	case *ssa.Return:
		var res Value
		switch len(x.Results) {
		case 0:
		case 1:
			res = it.get(fr, x.Results[0])
		default:
			tv := make(TupleV, len(x.Results))
			for i, r := range x.Results {
				tv[i] = it.get(fr, r)
			}
			res = tv
		}
		return nil, res, true
	case *ssa.Panic:
		v := it.get(fr, x.X)
		msg := "panic"
		if iv, ok := v.(*IfaceV); ok {
			if s, ok := iv.V.(*StrV); ok {
				if cs, ok := s.concrete(); ok {
					msg = "panic: " + cs
				}
			} else if iv.T != nil {
				msg = "panic(" + typeName(iv.T) + ")"
			}
		}
		panic(&goPanic{val: v, msg: msg, site: it.site()})
	case *ssa.RunDefers:
		it.runDefers(fr)
	case *ssa.Defer:
		fnv, args := it.prepareCall(fr, &x.Call)
		fr.defers = append(fr.defers, deferred{fnv, args, &x.Call})
	case *ssa.Go:
		fnv, args := it.prepareCall(fr, &x.Call)
		it.spawn(fnv, args, &x.Call)
	default:
		it.inconclusive(fmt.Sprintf("unsupported instruction %T", ins))
	}
	return nil, nil, false
}

func (it *Interp) spawn(fnv Value, args []Value, call *ssa.CallCommon) {
	label := ""
	switch f := fnv.(type) {
	case *ssa.Function:
		label = f.Name()
	case *Closure:
		label = f.fn.Name()
	case *BoundMethod:
		label = f.fn.Name()
	}
	if it.threadsOn() {
		it.spawnThread(fnv, args, label)
		return
	}
	pg := &pendingGo{fnv: fnv, args: args, call: call, label: label}
	it.pending = append(it.pending, pg)
	inline := it.job.GoInline != nil && it.job.GoInline(label)
	if !inline && len(it.job.GoInlineCalls) > 0 {
		var gfn *ssa.Function
		switch f := fnv.(type) {
		case *ssa.Function:
			gfn = f
		case *Closure:
			if f != nil {
				gfn = f.fn
			}
		}
		if gfn != nil {
			for _, cn := range it.job.GoInlineCalls {
				if callsNamed(gfn, cn) {
					inline = true
				}
			}
		}
	}
	if inline {
		pg.done = true
		it.callValue(fnv, args, call)
	}
}

func (it *Interp) ptr(v Value) *Ptr {
	p, ok := v.(*Ptr)
	if !ok {
		if u, isU := v.(Unknown); isU {
			it.inconclusive("use of unknown pointer (" + u.Why + ")")
		}
		it.inconclusive(fmt.Sprintf("expected pointer, got %T", v))
	}
	return p
}

// resolve returns the concrete cell of a pointer (nil check, concretizing symbolic element pointers).
func (it *Interp) resolve(p *Ptr) *Cell {
	if p.c != nil {
		return p.c
	}
	if p.base == nil {
		it.rtPanic("invalid memory address or nil pointer dereference")
	}
	i := it.concretize(p.idx, len(p.base.kids), "element pointer")
	return p.base.kids[i]
}

func (it *Interp) load(p *Ptr) Value {
	if p.c == nil && p.base != nil {
		// symbolic index: ite-chain over scalar elements
		all := true
		for _, k := range p.base.kids {
			if _, ok := k.v.(*Term); !ok || k.kids != nil {
				all = false
				break
			}
		}
		if all && len(p.base.kids) > 0 {
			res := p.base.kids[len(p.base.kids)-1].v.(*Term)
			for i := len(p.base.kids) - 2; i >= 0; i-- {
				res = it.ctx.Ite(it.ctx.Eq(p.idx, it.ctx.BV(uint64(i), p.idx.S.W)), p.base.kids[i].v.(*Term), res)
			}
			return res
		}
	}
	return it.loadCell(it.resolve(p))
}

func (it *Interp) store(p *Ptr, v Value) {
	if p.c == nil && p.base != nil {
		nt, isT := v.(*Term)
		all := isT
		for _, k := range p.base.kids {
			if _, ok := k.v.(*Term); !ok || k.kids != nil {
				all = false
				break
			}
		}
		if all {
			for i, k := range p.base.kids {
				k.v = it.ctx.Ite(it.ctx.Eq(p.idx, it.ctx.BV(uint64(i), p.idx.S.W)), nt, k.v.(*Term))
			}
			return
		}
	}
	it.storeCell(it.resolve(p), v)
}

func (it *Interp) unop(fr *frame, x *ssa.UnOp) Value {
	v := it.get(fr, x.X)
	switch x.Op {
	case token.MUL:
		return it.load(it.ptr(v))
	case token.ARROW:
		val, ok := it.chanRecv(v)
		if x.CommaOk {
			return TupleV{val, it.ctx.Bool(ok)}
		}
		return val
	case token.NOT:
		return it.ctx.Not(it.term(v, "!"))
	case token.SUB:
		t := it.term(v, "neg")
		if t.S.K == KFP {
			return it.ctx.fp1(OFPNeg, t)
		}
		return it.ctx.Neg(t)
	case token.XOR:
		return it.ctx.BNot(it.term(v, "^"))
	}
	it.inconclusive("unop " + x.Op.String())
	return nil
}

// to64 widens an index/length term to 64 bits according to its Go type.
func (it *Interp) to64(t *Term, typ types.Type) *Term {
	if t.S.W == 64 {
		return t
	}
	_, signed, _ := isInt(typ)
	if signed {
		return it.ctx.SExt(t, 64)
	}
	return it.ctx.ZExt(t, 64)
}

func (it *Interp) boundsCheck(idx *Term, n int, what string) {
	// idx is 64-bit; in range iff idx <u n
	ok := it.ctx.ULT(idx, it.ctx.BV(uint64(n), 64))
	if !it.branch(ok, "bounds@"+it.site()) {
		it.rtPanic(fmt.Sprintf("index out of range [%s] with length %d", what, n))
	}
}

func (it *Interp) indexAddr(xv, iv Value, ityp types.Type) Value {
	idx := it.to64(it.term(iv, "index"), ityp)
	switch x := xv.(type) {
	case *SliceV:
		it.boundsCheck(idx, x.ln, "slice")
		if idx.IsConst() {
			return &Ptr{c: x.arr.kids[x.off+int(idx.V)]}
		}
		sub := &Cell{typ: types.NewArray(x.elem, int64(x.ln)), obj: x.arr.obj, kids: x.arr.kids[x.off : x.off+x.ln]}
		return &Ptr{base: sub, idx: idx, elem: x.elem}
	case *Ptr:
		c := it.resolve(x)
		it.boundsCheck(idx, len(c.kids), "array")
		if idx.IsConst() {
			return &Ptr{c: c.kids[int(idx.V)]}
		}
		return &Ptr{base: c, idx: idx}
	}
	it.inconclusive(fmt.Sprintf("indexaddr on %T", xv))
	return nil
}

func (it *Interp) indexValue(xv, iv Value, ityp types.Type) Value {
	idx := it.to64(it.term(iv, "index"), ityp)
	switch x := xv.(type) {
	case *ArrayV:
		it.boundsCheck(idx, len(x.elems), "array")
		i := it.concretize(idx, len(x.elems), "array value index")
		return x.elems[i]
	case *StrV:
		return it.strIndex(x, idx)
	}
	it.inconclusive(fmt.Sprintf("index on %T", xv))
	return nil
}

func (it *Interp) strIndex(s *StrV, idx *Term) Value {
	it.boundsCheck(idx, len(s.b), "string")
	if idx.IsConst() {
		return s.b[idx.V]
	}
	res := s.b[len(s.b)-1]
	for i := len(s.b) - 2; i >= 0; i-- {
		res = it.ctx.Ite(it.ctx.Eq(idx, it.ctx.BV(uint64(i), 64)), s.b[i], res)
	}
	return res
}

func (it *Interp) lookup(xv, kv Value, x *ssa.Lookup) Value {
	switch m := xv.(type) {
	case *StrV:
		return it.strIndex(m, it.to64(it.term(kv, "index"), x.Index.Type()))
	case *MapObj:
		var val Value
		found := false
		if m != nil {
			if e := it.mapFind(m, kv); e != nil {
				val, found = e.v, true
			}
		}
		if !found {
			val = it.zero(x.X.Type().Underlying().(*types.Map).Elem())
		}
		if x.CommaOk {
			return TupleV{val, it.ctx.Bool(found)}
		}
		return val
	}
	it.inconclusive(fmt.Sprintf("lookup on %T", xv))
	return nil
}

// mapFind returns the entry whose key equals k (forking on symbolic equality).
func (it *Interp) mapFind(m *MapObj, k Value) *MapEntry {
	for _, e := range m.entries {
		if e.deleted {
			continue
		}
		eq := it.equal(e.k, k)
		if it.branch(eq, "mapkey@"+it.site()) {
			return e
		}
	}
	return nil
}

func (it *Interp) mapSet(m *MapObj, k, v Value) {
	if e := it.mapFind(m, k); e != nil {
		e.v = v
		return
	}
	m.entries = append(m.entries, &MapEntry{k: k, v: v})
}

func (it *Interp) mapDelete(m *MapObj, k Value) {
	if m == nil {
		return
	}
	if e := it.mapFind(m, k); e != nil {
		e.deleted = true
	}
}

func (it *Interp) mapLen(m *MapObj) int {
	if m == nil {
		return 0
	}
	n := 0
	for _, e := range m.entries {
		if !e.deleted {
			n++
		}
	}
	return n
}

func (it *Interp) makeIter(v Value) Value {
	switch x := v.(type) {
	case *MapObj:
		iv := &IterV{kind: "map", m: x}
		if x != nil {
			for _, e := range x.entries {
				if !e.deleted {
					iv.snap = append(iv.snap, e)
				}
			}
			if it.job.MapOrderSorted {
				// deterministic order already (insertion); nothing to do
			}
		}
		return iv
	case *StrV:
		return &IterV{kind: "string", s: x}
	}
	it.inconclusive(fmt.Sprintf("range over %T", v))
	return nil
}

func (it *Interp) iterNext(iv *IterV, x *ssa.Next) Value {
	tt := x.Type().(*types.Tuple)
	if iv.kind == "map" {
		for iv.pos < len(iv.snap) {
			e := iv.snap[iv.pos]
			iv.pos++
			if e.deleted {
				continue
			}
			return TupleV{it.ctx.True, e.k, e.v}
		}
		return TupleV{it.ctx.False, it.zeroOrNil(tt.At(1).Type()), it.zeroOrNil(tt.At(2).Type())}
	}
	// string: decode UTF-8; only ASCII bytes supported symbolically
	if iv.pos >= len(iv.s.b) {
		return TupleV{it.ctx.False, it.ctx.BV(0, 64), it.ctx.BV(0, 32)}
	}
	b := iv.s.b[iv.pos]
	if b.IsConst() && b.V >= 0x80 {
		// decode concrete multi-byte rune
		rest := []byte{}
		for j := iv.pos; j < len(iv.s.b) && j < iv.pos+4; j++ {
			if !iv.s.b[j].IsConst() {
				it.inconclusive("range over string with symbolic non-ASCII bytes")
			}
			rest = append(rest, byte(iv.s.b[j].V))
		}
		r, size := decodeRune(rest)
		pos := iv.pos
		iv.pos += size
		return TupleV{it.ctx.True, it.ctx.BV(uint64(pos), 64), it.ctx.BV(uint64(r), 32)}
	}
	if !b.IsConst() {
		ascii := it.ctx.ULT(b, it.ctx.BV(0x80, 8))
		if !it.branch(ascii, "ascii@"+it.site()) {
			panic(pathEnd{"truncated", "range over string: non-ASCII symbolic byte (outside bound)"})
		}
	}
	pos := iv.pos
	iv.pos++
	return TupleV{it.ctx.True, it.ctx.BV(uint64(pos), 64), it.ctx.ZExt(b, 32)}
}

func decodeRune(b []byte) (rune, int) {
	s := string(b)
	for _, r := range s {
		return r, len(string(r))
	}
	return 0xFFFD, 1
}

func (it *Interp) zeroOrNil(t types.Type) Value {
	if t == nil {
		return nil
	}
	if b, ok := t.(*types.Basic); ok && b.Kind() == types.Invalid {
		return nil
	}
	return it.zero(t)
}

func (it *Interp) makeSlice(x *ssa.MakeSlice, lv, cv Value) Value {
	st := x.Type().Underlying().(*types.Slice)
	lt := it.to64(it.term(lv, "make len"), x.Len.Type())
	ct := it.to64(it.term(cv, "make cap"), x.Cap.Type())
	esz := it.sizeof(st.Elem())
	if !lt.IsConst() || !ct.IsConst() {
		// input-dependent allocation: record for the allocation oracle, then case-split small sizes
		big := ct
		it.allocs = append(it.allocs, AllocEvent{Site: it.site(), Count: big, Bytes: it.ctx.Mul(big, it.ctx.BV(uint64(esz), 64))})
		if it.job.OnAlloc != nil {
			it.job.OnAlloc(it, it.allocs[len(it.allocs)-1])
		}
		it.allocOracle(it.allocs[len(it.allocs)-1])
		neg := it.ctx.SLT(lt, it.ctx.BV(0, 64))
		if it.branch(neg, "makeneg@"+it.site()) {
			it.rtPanic("makeslice: len out of range")
		}
		B := it.job.MaxSymAlloc
		conds := make([]*Term, B+2)
		for i := 0; i <= B; i++ {
			conds[i] = it.ctx.Eq(lt, it.ctx.BV(uint64(i), 64))
		}
		conds[B+1] = it.ctx.ULT(it.ctx.BV(uint64(B), 64), lt)
		d := it.decide(conds, "makeslice-len@"+it.site())
		if d == B+1 {
			panic(pathEnd{"truncated", fmt.Sprintf("allocation length > %d at %s (outside bound)", B, it.site())})
		}
		lt = it.ctx.BV(uint64(d), 64)
		if !ct.IsConst() {
			// cap == len in every make([]T, n) of the code base; otherwise concretize
			if it.branch(it.ctx.Eq(ct, lt), "makecap") {
				ct = lt
			} else {
				// make([]T, n, c) with an input-dependent capacity hint: case-split like lengths
				cc := make([]*Term, B+2)
				for i := 0; i <= B; i++ {
					cc[i] = it.ctx.Eq(ct, it.ctx.BV(uint64(i), 64))
				}
				cc[B+1] = it.ctx.ULT(it.ctx.BV(uint64(B), 64), ct)
				dc := it.decide(cc, "makeslice-cap@"+it.site())
				if dc == B+1 {
					panic(pathEnd{"truncated", fmt.Sprintf("allocation capacity > %d at %s (outside bound)", B, it.site())})
				}
				ct = it.ctx.BV(uint64(dc), 64)
			}
		}
	}
	n, cp := int(lt.V), int(ct.V)
	if int64(lt.V) < 0 || int64(ct.V) < int64(lt.V) {
		it.rtPanic("makeslice: len out of range")
	}
	if uint64(cp)*uint64(esz) > uint64(it.job.MaxConcreteAlloc) {
		panic(pathEnd{"truncated", fmt.Sprintf("concrete allocation of %d bytes at %s (outside the modelled heap)", cp*esz, it.site())})
	}
	arr := it.newArrayCell(st.Elem(), cp, "make@"+it.site())
	return &SliceV{arr: arr, off: 0, ln: n, cp: cp, elem: st.Elem()}
}

func (it *Interp) sizeof(t types.Type) int {
	switch u := t.Underlying().(type) {
	case *types.Basic:
		if w, _, ok := isInt(t); ok {
			return w / 8
		}
		if isBool(t) {
			return 1
		}
		if isString(t) {
			return 16
		}
		return 8
	case *types.Struct:
		n := 0
		for i := 0; i < u.NumFields(); i++ {
			s := it.sizeof(u.Field(i).Type())
			al := s
			if al > 8 {
				al = 8
			}
			if al > 0 && n%al != 0 {
				n += al - n%al
			}
			n += s
		}
		if n%8 != 0 && n > 8 {
			n += 8 - n%8
		}
		return n
	case *types.Array:
		return int(u.Len()) * it.sizeof(u.Elem())
	case *types.Slice:
		return 24
	case *types.Interface:
		return 16
	}
	return 8
}

func (it *Interp) doSlice(fr *frame, x *ssa.Slice) Value {
	xv := it.get(fr, x.X)
	getIdx := func(v ssa.Value, def int) (*Term, bool) {
		if v == nil {
			return it.ctx.BV(uint64(def), 64), false
		}
		return it.to64(it.term(it.get(fr, v), "slice index"), v.Type()), true
	}
	concrete := func(t *Term, max int, what string) int {
		if t.IsConst() {
			if t.V > uint64(max) {
				it.rtPanic(fmt.Sprintf("slice bounds out of range [%s %d] with capacity %d", what, int64(t.V), max))
			}
			return int(t.V)
		}
		ok := it.ctx.ULE(t, it.ctx.BV(uint64(max), 64))
		if !it.branch(ok, "slicebounds@"+it.site()) {
			it.rtPanic(fmt.Sprintf("slice bounds out of range [%s] with capacity %d", what, max))
		}
		return it.concretize(t, max+1, "slice bound")
	}
	switch s := xv.(type) {
	case *StrV:
		lo, _ := getIdx(x.Low, 0)
		hi, _ := getIdx(x.High, len(s.b))
		h := concrete(hi, len(s.b), "high")
		l := concrete(lo, h, "low")
		return &StrV{b: s.b[l:h]}
	case *SliceV:
		lo, _ := getIdx(x.Low, 0)
		hi, _ := getIdx(x.High, s.ln)
		mx, hasMax := getIdx(x.Max, s.cp)
		m := s.cp
		if hasMax {
			m = concrete(mx, s.cp, "max")
		}
		h := concrete(hi, m, "high")
		l := concrete(lo, h, "low")
		if s.arr == nil {
			return &SliceV{elem: s.elem}
		}
		return &SliceV{arr: s.arr, off: s.off + l, ln: h - l, cp: m - l, elem: s.elem}
	case *Ptr:
		c := it.resolve(s)
		at := c.typ.Underlying().(*types.Array)
		n := len(c.kids)
		lo, _ := getIdx(x.Low, 0)
		hi, _ := getIdx(x.High, n)
		mx, hasMax := getIdx(x.Max, n)
		m := n
		if hasMax {
			m = concrete(mx, n, "max")
		}
		h := concrete(hi, m, "high")
		l := concrete(lo, h, "low")
		return &SliceV{arr: c, off: l, ln: h - l, cp: m - l, elem: at.Elem()}
	}
	it.inconclusive(fmt.Sprintf("slice of %T", xv))
	return nil
}

func (it *Interp) typeAssert(x *ssa.TypeAssert, v Value) Value {
	iv, ok := v.(*IfaceV)
	if !ok {
		if u, isU := v.(Unknown); isU {
			it.inconclusive("type assert on unknown (" + u.Why + ")")
		}
		it.inconclusive(fmt.Sprintf("type assert on %T", v))
	}
	at := x.AssertedType
	okv := false
	var res Value
	if iv.T != nil {
		if _, isIface := at.Underlying().(*types.Interface); isIface {
			if iv.T == runtimeErrT {
				okv = at.String() == "error" || strings.HasSuffix(at.String(), "runtime.Error")
			} else {
				okv = types.Implements(iv.T, at.Underlying().(*types.Interface))
			}
			res = iv
		} else {
			okv = types.Identical(iv.T, at)
			res = iv.V
		}
	}
	if x.CommaOk {
		if !okv {
			res = it.zero(at)
		}
		return TupleV{res, it.ctx.Bool(okv)}
	}
	if !okv {
		dyn := "nil"
		if iv.T != nil {
			dyn = typeName(iv.T)
		}
		panic(&goPanic{msg: fmt.Sprintf("interface conversion: interface is %s, not %s", dyn, typeName(at)), runtime: true, site: it.site(),
			val: &IfaceV{T: runtimeErrT, V: it.constString("interface conversion")}})
	}
	return res
}

func (it *Interp) prepareCall(fr *frame, c *ssa.CallCommon) (Value, []Value) {
	args := make([]Value, 0, len(c.Args)+1)
	if c.IsInvoke() {
		recv := it.get(fr, c.Value)
		iv, ok := recv.(*IfaceV)
		if !ok {
			if u, isU := recv.(Unknown); isU {
				it.inconclusive("invoke on unknown (" + u.Why + ")")
			}
			it.inconclusive(fmt.Sprintf("invoke on %T", recv))
		}
		if iv.T == nil {
			it.rtPanic("invalid memory address or nil pointer dereference (nil interface method call " + c.Method.Name() + ")")
		}
		if h := it.engineMethod(iv, c.Method.Name()); h != nil {
			for _, a := range c.Args {
				args = append(args, it.get(fr, a))
			}
			return h, args
		}
		fn := it.safeLookup(iv.T, c.Method.Pkg(), c.Method.Name())
		if fn == nil {
			it.inconclusive("method " + c.Method.Name() + " not found on " + typeName(iv.T))
		}
		args = append(args, iv.V)
		for _, a := range c.Args {
			args = append(args, it.get(fr, a))
		}
		return fn, args
	}
	fnv := it.get(fr, c.Value)
	for _, a := range c.Args {
		args = append(args, it.get(fr, a))
	}
	return fnv, args
}

func (it *Interp) doCall(fr *frame, c *ssa.CallCommon) Value {
	fnv, args := it.prepareCall(fr, c)
	return it.callValue(fnv, args, c)
}

// ---------------------------------------------------------------------------------------
// Operators

func (it *Interp) binop(op token.Token, a, b Value, ta, tb types.Type) Value {
	c := it.ctx
	switch op {
	case token.EQL:
		return it.equal(a, b)
	case token.NEQ:
		return c.Not(it.equal(a, b))
	}
	if sa, ok := a.(*StrV); ok {
		sb, ok2 := b.(*StrV)
		if !ok2 {
			it.inconclusive("string op with non-string")
		}
		switch op {
		case token.ADD:
			nb := make([]*Term, 0, len(sa.b)+len(sb.b))
			nb = append(nb, sa.b...)
			nb = append(nb, sb.b...)
			return &StrV{nb}
		case token.LSS:
			return it.strLess(sa, sb, false)
		case token.LEQ:
			return it.strLess(sa, sb, true)
		case token.GTR:
			return it.strLess(sb, sa, false)
		case token.GEQ:
			return it.strLess(sb, sa, true)
		}
	}
	x := it.term(a, "binop "+op.String())
	y := it.term(b, "binop "+op.String())
	if x.S.K == KFP {
		switch op {
		case token.ADD:
			return c.fp2(OFPAdd, x, y)
		case token.SUB:
			return c.fp2(OFPSub, x, y)
		case token.MUL:
			return c.fp2(OFPMul, x, y)
		case token.QUO:
			return c.fp2(OFPDiv, x, y)
		case token.LSS:
			return c.fpcmp(OFPLT, x, y)
		case token.LEQ:
			return c.fpcmp(OFPLE, x, y)
		case token.GTR:
			return c.fpcmp(OFPLT, y, x)
		case token.GEQ:
			return c.fpcmp(OFPLE, y, x)
		}
		it.inconclusive("float op " + op.String())
	}
	if x.S.K == KBool {
		switch op {
		case token.AND, token.LAND:
			return c.And(x, y)
		case token.OR, token.LOR:
			return c.Or(x, y)
		}
		it.inconclusive("bool op " + op.String())
	}
	w, signed, _ := isInt(ta)
	if w == 0 {
		w = x.S.W
	}
	switch op {
	case token.ADD:
		return c.Add(x, y)
	case token.SUB:
		return c.Sub(x, y)
	case token.MUL:
		return c.Mul(x, y)
	case token.QUO, token.REM:
		zero := c.Eq(y, c.BV(0, w))
		if it.branch(zero, "divzero@"+it.site()) {
			it.rtPanic("integer divide by zero")
		}
		if op == token.QUO {
			if signed {
				return c.SDiv(x, y)
			}
			return c.UDiv(x, y)
		}
		if signed {
			return c.SRem(x, y)
		}
		return c.URem(x, y)
	case token.AND:
		return c.BAnd(x, y)
	case token.OR:
		return c.BOr(x, y)
	case token.XOR:
		return c.BXor(x, y)
	case token.AND_NOT:
		return c.BAnd(x, c.BNot(y))
	case token.SHL, token.SHR:
		_, ysigned, _ := isInt(tb)
		if ysigned && !y.IsConst() {
			neg := c.SLT(y, c.BV(0, y.S.W))
			if it.branch(neg, "negshift@"+it.site()) {
				it.rtPanic("negative shift amount")
			}
		}
		var amt *Term
		var over *Term = c.False
		if y.S.W > w {
			over = c.ULE(c.BV(uint64(w), y.S.W), y)
			amt = c.Extract(y, w-1, 0)
		} else {
			amt = c.ZExt(y, w)
		}
		var r, ov *Term
		if op == token.SHL {
			r = c.Shl(x, amt)
			ov = c.BV(0, w)
		} else if signed {
			r = c.Ashr(x, amt)
			ov = c.Ashr(x, c.BV(uint64(w-1), w))
		} else {
			r = c.Lshr(x, amt)
			ov = c.BV(0, w)
		}
		return c.Ite(over, ov, r)
	case token.LSS:
		if signed {
			return c.SLT(x, y)
		}
		return c.ULT(x, y)
	case token.LEQ:
		if signed {
			return c.SLE(x, y)
		}
		return c.ULE(x, y)
	case token.GTR:
		if signed {
			return c.SLT(y, x)
		}
		return c.ULT(y, x)
	case token.GEQ:
		if signed {
			return c.SLE(y, x)
		}
		return c.ULE(y, x)
	}
	it.inconclusive("binop " + op.String())
	return nil
}

func (it *Interp) strEq(a, b *StrV) *Term {
	if len(a.b) != len(b.b) {
		return it.ctx.False
	}
	cs := make([]*Term, len(a.b))
	for i := range a.b {
		cs[i] = it.ctx.Eq(a.b[i], b.b[i])
	}
	return it.ctx.And(cs...)
}

func (it *Interp) strLess(a, b *StrV, orEq bool) *Term {
	c := it.ctx
	n := len(a.b)
	if len(b.b) < n {
		n = len(b.b)
	}
	// result when common prefix equal:
	var res *Term
	if len(a.b) < len(b.b) {
		res = c.True
	} else if len(a.b) == len(b.b) {
		res = c.Bool(orEq)
	} else {
		res = c.False
	}
	for i := n - 1; i >= 0; i-- {
		res = c.Ite(c.Eq(a.b[i], b.b[i]), res, c.ULT(a.b[i], b.b[i]))
	}
	return res
}

func (it *Interp) equal(a, b Value) *Term {
	c := it.ctx
	switch x := a.(type) {
	case *Term:
		y, ok := b.(*Term)
		if !ok {
			it.inconclusive(fmt.Sprintf("compare scalar with %T", b))
		}
		return c.Eq(x, y)
	case *StrV:
		y, ok := b.(*StrV)
		if !ok {
			it.inconclusive("compare string with non-string")
		}
		return it.strEq(x, y)
	case *Ptr:
		y, ok := b.(*Ptr)
		if !ok {
			it.inconclusive(fmt.Sprintf("compare pointer with %T", b))
		}
		if x.base != nil || y.base != nil {
			if x.base != nil {
				x = &Ptr{c: it.resolve(x)}
			}
			if y.base != nil {
				y = &Ptr{c: it.resolve(y)}
			}
		}
		return c.Bool(x.c == y.c)
	case *IfaceV:
		y, ok := b.(*IfaceV)
		if !ok {
			it.inconclusive(fmt.Sprintf("compare interface with %T", b))
		}
		if x.T == nil || y.T == nil {
			return c.Bool(x.T == nil && y.T == nil)
		}
		if !types.Identical(x.T, y.T) {
			return c.False
		}
		return it.equal(x.V, y.V)
	case *StructV:
		y, ok := b.(*StructV)
		if !ok {
			it.inconclusive("compare struct with non-struct")
		}
		cs := make([]*Term, len(x.fields))
		for i := range x.fields {
			cs[i] = it.equal(x.fields[i], y.fields[i])
		}
		return c.And(cs...)
	case *ArrayV:
		y := b.(*ArrayV)
		cs := make([]*Term, len(x.elems))
		for i := range x.elems {
			cs[i] = it.equal(x.elems[i], y.elems[i])
		}
		return c.And(cs...)
	case *SliceV:
		y, ok := b.(*SliceV)
		if ok && (x.arr == nil || y.arr == nil) {
			return c.Bool(x.arr == nil && y.arr == nil)
		}
	case *MapObj:
		y, ok := b.(*MapObj)
		if ok {
			return c.Bool(x == y)
		}
	case *ChanObj:
		y, ok := b.(*ChanObj)
		if ok {
			return c.Bool(x == y)
		}
	case *Closure:
		if y, ok := b.(*Closure); ok && (x == nil || y == nil) {
			return c.Bool(x == nil && y == nil)
		}
		if _, ok := b.(*ssa.Function); ok {
			return c.Bool(false)
		}
	case *ssa.Function:
		if y, ok := b.(*Closure); ok && y == nil {
			return c.False
		}
	case *BoundMethod:
		if y, ok := b.(*Closure); ok && y == nil {
			return c.False
		}
	case *EngineFunc:
		if y, ok := b.(*Closure); ok && y == nil {
			return c.False
		}
	case nil:
		return c.Bool(b == nil)
	case Unknown:
		it.inconclusive("compare unknown (" + x.Why + ")")
	}
	if u, ok := b.(Unknown); ok {
		it.inconclusive("compare unknown (" + u.Why + ")")
	}
	it.inconclusive(fmt.Sprintf("compare %T with %T", a, b))
	return nil
}

func (it *Interp) convert(v Value, from, to types.Type) Value {
	c := it.ctx
	fu, tu := from.Underlying(), to.Underlying()
	if wf, sf, ok := isInt(from); ok {
		t := it.term(v, "convert")
		if wt, _, ok := isInt(to); ok {
			if wt <= wf {
				return c.Extract(t, wt-1, 0)
			}
			if sf {
				return c.SExt(t, wt)
			}
			return c.ZExt(t, wt)
		}
		if isFloat(to) {
			return c.FPFromInt(t, sf)
		}
		if isString(to) {
			// string(rune)
			if t.IsConst() {
				return it.constString(string(rune(sext(t.V, wf))))
			}
			it.inconclusive("string(symbolic rune)")
		}
		if b, ok := tu.(*types.Basic); ok && b.Kind() == types.UnsafePointer {
			it.inconclusive("conversion to unsafe.Pointer")
		}
	}
	if isFloat(from) {
		t := it.term(v, "convert")
		if wt, st, ok := isInt(to); ok {
			return c.FPToInt(t, wt, st)
		}
		if isFloat(to) {
			if tb := tu.(*types.Basic); tb.Kind() == types.Float32 {
				it.inconclusive("float32 conversion")
			}
			return t
		}
	}
	if isString(from) {
		s := v.(*StrV)
		if sl, ok := tu.(*types.Slice); ok {
			if w, _, ok := isInt(sl.Elem()); ok && w == 8 {
				return it.newByteSlice(s.b, "[]byte(string)")
			}
			it.inconclusive("[]rune(string)")
		}
		if isString(to) {
			return v
		}
	}
	if sl, ok := fu.(*types.Slice); ok {
		if isString(to) {
			if w, _, ok := isInt(sl.Elem()); ok && w == 8 {
				s := v.(*SliceV)
				b := it.bytesOfSlice(s)
				return &StrV{b: b}
			}
			it.inconclusive("string([]rune)")
		}
		if _, ok := tu.(*types.Slice); ok {
			return v
		}
		if pt, ok := tu.(*types.Pointer); ok {
			// slice to array pointer
			s := v.(*SliceV)
			at := pt.Elem().Underlying().(*types.Array)
			n := int(at.Len())
			if s.ln < n {
				it.rtPanic("cannot convert slice to array pointer")
			}
			return &Ptr{c: &Cell{typ: at, obj: s.arr.obj, kids: s.arr.kids[s.off : s.off+n]}}
		}
		if at, ok := tu.(*types.Array); ok {
			s := v.(*SliceV)
			n := int(at.Len())
			if s.ln < n {
				it.rtPanic("cannot convert slice to array")
			}
			av := &ArrayV{typ: to, elems: make([]Value, n)}
			for i := 0; i < n; i++ {
				av.elems[i] = it.loadCell(s.arr.kids[s.off+i])
			}
			return av
		}
	}
	if _, ok := fu.(*types.Pointer); ok {
		if _, ok := tu.(*types.Pointer); ok {
			return v
		}
		if b, ok := tu.(*types.Basic); ok && b.Kind() == types.UnsafePointer {
			return v
		}
	}
	if b, ok := fu.(*types.Basic); ok && b.Kind() == types.UnsafePointer {
		if _, ok := tu.(*types.Pointer); ok {
			return v
		}
	}
	if types.Identical(fu, tu) {
		return v
	}
	it.inconclusive(fmt.Sprintf("conversion %s -> %s", from, to))
	return nil
}

// ---------------------------------------------------------------------------------------
// Builtins

func (it *Interp) builtin(name string, args []Value, site *ssa.CallCommon) Value {
	c := it.ctx
	switch name {
	case "len":
		switch x := args[0].(type) {
		case *StrV:
			return c.BV(uint64(len(x.b)), 64)
		case *SliceV:
			return c.BV(uint64(x.ln), 64)
		case *MapObj:
			return c.BV(uint64(it.mapLen(x)), 64)
		case *ChanObj:
			if x == nil {
				return c.BV(0, 64)
			}
			return c.BV(uint64(len(x.buf)), 64)
		case *ArrayV:
			return c.BV(uint64(len(x.elems)), 64)
		case *Ptr:
			return c.BV(uint64(len(it.resolve(x).kids)), 64)
		}
	case "cap":
		switch x := args[0].(type) {
		case *SliceV:
			return c.BV(uint64(x.cp), 64)
		case *ChanObj:
			if x == nil {
				return c.BV(0, 64)
			}
			return c.BV(uint64(x.cp), 64)
		case *ArrayV:
			return c.BV(uint64(len(x.elems)), 64)
		case *Ptr:
			return c.BV(uint64(len(it.resolve(x).kids)), 64)
		}
	case "append":
		s := args[0].(*SliceV)
		var add []Value
		switch y := args[1].(type) {
		case *SliceV:
			for _, cell := range y.cells() {
				add = append(add, it.loadCell(cell))
			}
		case *StrV:
			for _, b := range y.b {
				add = append(add, b)
			}
		default:
			it.inconclusive(fmt.Sprintf("append of %T", args[1]))
		}
		if len(add) == 0 {
			return s
		}
		elem := s.elem
		if elem == nil {
			elem = site.Args[0].Type().Underlying().(*types.Slice).Elem()
		}
		if s.arr != nil && s.ln+len(add) <= s.cp {
			for i, v := range add {
				it.storeCell(s.arr.kids[s.off+s.ln+i], v)
			}
			return &SliceV{arr: s.arr, off: s.off, ln: s.ln + len(add), cp: s.cp, elem: elem}
		}
		ncap := s.cp * 2
		if ncap < s.ln+len(add) {
			ncap = s.ln + len(add)
		}
		arr := it.newArrayCell(elem, ncap, "append@"+it.site())
		for i := 0; i < s.ln; i++ {
			it.storeCell(arr.kids[i], it.loadCell(s.arr.kids[s.off+i]))
		}
		for i, v := range add {
			it.storeCell(arr.kids[s.ln+i], v)
		}
		return &SliceV{arr: arr, off: 0, ln: s.ln + len(add), cp: ncap, elem: elem}
	case "copy":
		d := args[0].(*SliceV)
		var src []Value
		switch y := args[1].(type) {
		case *SliceV:
			for _, cell := range y.cells() {
				src = append(src, it.loadCell(cell))
			}
		case *StrV:
			for _, b := range y.b {
				src = append(src, b)
			}
		}
		n := len(src)
		if d.ln < n {
			n = d.ln
		}
		for i := 0; i < n; i++ {
			it.storeCell(d.arr.kids[d.off+i], src[i])
		}
		return c.BV(uint64(n), 64)
	case "delete":
		m, _ := args[0].(*MapObj)
		it.mapDelete(m, args[1])
		return nil
	case "close":
		ch, _ := args[0].(*ChanObj)
		if ch == nil {
			panic(&goPanic{msg: "close of nil channel", runtime: true, site: it.site()})
		}
		if ch.closed {
			panic(&goPanic{msg: "close of closed channel", runtime: true, site: it.site()})
		}
		ch.closed = true
		return nil
	case "panic":
		panic(&goPanic{val: args[0], msg: "panic", site: it.site()})
	case "recover":
		// the panicking frame is the caller of the deferred function
		if n := len(it.panicStack); n > 0 {
			fr := it.panicStack[n-1]
			if fr.panicking != nil && !fr.recovered {
				fr.recovered = true
				if fr.panicking.val != nil {
					return fr.panicking.val
				}
				return &IfaceV{T: runtimeErrT, V: it.constString(fr.panicking.msg)}
			}
		}
		return &IfaceV{}
	case "min", "max":
		x := it.term(args[0], name)
		for i, a := range args[1:] {
			y := it.term(a, name)
			_, signed, _ := isInt(site.Args[i].Type())
			var lt *Term
			if x.S.K == KFP {
				lt = c.fpcmp(OFPLT, x, y)
			} else if signed {
				lt = c.SLT(x, y)
			} else {
				lt = c.ULT(x, y)
			}
			if name == "min" {
				x = c.Ite(lt, x, y)
			} else {
				x = c.Ite(lt, y, x)
			}
		}
		return x
	case "print", "println":
		return nil
	case "clear":
		switch x := args[0].(type) {
		case *MapObj:
			if x != nil {
				x.entries = nil
			}
		case *SliceV:
			for _, cell := range x.cells() {
				it.storeCell(cell, it.zero(cell.typ))
			}
		}
		return nil
	case "SliceData":
		sl := args[0].(*SliceV)
		if sl.arr == nil || sl.cp == 0 {
			return &Ptr{sref: sl}
		}
		return &Ptr{c: sl.arr.kids[sl.off], sref: sl}
	case "StringData":
		return &Ptr{strRef: args[0].(*StrV)}
	case "String":
		p := it.ptr(args[0])
		n := it.term(args[1], "unsafe.String len")
		if !n.IsConst() {
			it.inconclusive("unsafe.String with symbolic length")
		}
		if p.sref != nil {
			b := make([]*Term, n.V)
			for i := range b {
				b[i] = it.term(p.sref.arr.kids[p.sref.off+i].v, "byte")
			}
			return &StrV{b}
		}
		if p.strRef != nil {
			return &StrV{p.strRef.b[:n.V]}
		}
		if n.V == 0 {
			return &StrV{}
		}
		it.inconclusive("unsafe.String of pointer without provenance")
	case "Slice":
		p := it.ptr(args[0])
		n := it.term(args[1], "unsafe.Slice len")
		if !n.IsConst() {
			it.inconclusive("unsafe.Slice with symbolic length")
		}
		if p.strRef != nil {
			return it.newByteSlice(append([]*Term{}, p.strRef.b[:n.V]...), "unsafe.Slice")
		}
		if p.sref != nil {
			return &SliceV{arr: p.sref.arr, off: p.sref.off, ln: int(n.V), cp: int(n.V), elem: p.sref.elem}
		}
		if n.V == 0 {
			return &SliceV{elem: types.Typ[types.Uint8]}
		}
		it.inconclusive("unsafe.Slice of pointer without provenance")
	case "ssa:wrapnilchk":
		p := it.ptr(args[0])
		if p.IsNil() {
			it.rtPanic("value method called using nil pointer")
		}
		return p
	}
	it.inconclusive("builtin " + name)
	return nil
}

// ---------------------------------------------------------------------------------------
// Channels (single-threaded semantics: an operation that cannot proceed ends the path as "blocked")

func (it *Interp) chanSend(chv, v Value) {
	ch, _ := chv.(*ChanObj)
	if ch == nil {
		if it.threadsOn() {
			it.block(func() bool { return false }, "send on nil channel")
		}
		panic(pathEnd{"blocked", "send on nil channel at " + it.site()})
	}
	it.yield("send")
	if ch.closed {
		panic(&goPanic{msg: "send on closed channel", runtime: true, site: it.site()})
	}
	if len(ch.buf) < ch.cp {
		ch.buf = append(ch.buf, v)
		return
	}
	if it.threadsOn() {
		item := &sendItem{v: v}
		ch.sendq = append(ch.sendq, item)
		it.block(func() bool { return item.taken || ch.closed }, "channel send")
		if !item.taken {
			panic(&goPanic{msg: "send on closed channel", runtime: true, site: it.site()})
		}
		return
	}
	if it.job.OnBlockedSend != nil && it.job.OnBlockedSend(it, ch, v) {
		return
	}
	panic(pathEnd{"blocked", "send would block at " + it.site()})
}

type sendItem struct {
	v     Value
	taken bool
}

// takeFrom pops a value from the channel if one is available.
func (it *Interp) takeFrom(ch *ChanObj) (Value, bool) {
	if len(ch.buf) > 0 {
		v := ch.buf[0]
		ch.buf = ch.buf[1:]
		if len(ch.sendq) > 0 {
			s := ch.sendq[0]
			ch.sendq = ch.sendq[1:]
			s.taken = true
			ch.buf = append(ch.buf, s.v)
		}
		return v, true
	}
	if len(ch.sendq) > 0 {
		s := ch.sendq[0]
		ch.sendq = ch.sendq[1:]
		s.taken = true
		return s.v, true
	}
	return nil, false
}

func (it *Interp) chanRecv(chv Value) (Value, bool) {
	ch, _ := chv.(*ChanObj)
	if ch == nil {
		if it.threadsOn() {
			it.block(func() bool { return false }, "receive on nil channel")
		}
		panic(pathEnd{"blocked", "receive on nil channel at " + it.site()})
	}
	it.yield("recv")
	for {
		if v, ok := it.takeFrom(ch); ok {
			return v, true
		}
		if ch.closed {
			return it.zero(ch.elem), false
		}
		if ch.maybeReady && it.timerMayFire() {
			if it.branch(it.fresh("ready_"+ch.label, SBool), "chanready") {
				it.timerFires++
				return ch.readyVal, true
			}
		}
		if !it.threadsOn() {
			panic(pathEnd{"blocked", "receive would block at " + it.site()})
		}
		ch.recvWaiting++
		it.block(func() bool { return len(ch.buf) > 0 || len(ch.sendq) > 0 || ch.closed }, "channel receive")
		ch.recvWaiting--
	}
}

func (it *Interp) doSelect(fr *frame, x *ssa.Select) Value {
	type rc struct {
		idx int
	}
	it.yield("select")
	var ready []int
	chans := make([]*ChanObj, len(x.States))
	sendVals := make([]Value, len(x.States))
	var maybe []int
	for i, st := range x.States {
		ch, _ := it.get(fr, st.Chan).(*ChanObj)
		chans[i] = ch
		if ch == nil {
			continue
		}
		if st.Dir == types.SendOnly {
			sendVals[i] = it.get(fr, st.Send)
			if ch.closed || len(ch.buf) < ch.cp || (ch.cp == 0 && ch.recvWaiting > 0) {
				ready = append(ready, i)
			}
		} else {
			if len(ch.buf) > 0 || len(ch.sendq) > 0 || ch.closed {
				ready = append(ready, i)
			} else if ch.maybeReady {
				maybe = append(maybe, i)
			}
		}
	}
	// possibly-ready channels (timers, ctx.Done of a symbolic context): each one is a symbolic choice
	for _, i := range maybe {
		if it.timerMayFire() && it.branch(it.fresh("ready_"+chans[i].label, SBool), "selectready") {
			it.timerFires++
			chans[i].buf = append(chans[i].buf, chans[i].readyVal)
			ready = append(ready, i)
		}
	}
	sort.Ints(ready)
	nres := 2
	for _, st := range x.States {
		if st.Dir == types.RecvOnly {
			nres++
		}
	}
	res := make(TupleV, nres)
	res[1] = it.ctx.False
	k := 2
	recvSlot := map[int]int{}
	for i, st := range x.States {
		if st.Dir == types.RecvOnly {
			recvSlot[i] = k
			res[k] = it.zero(chans0elem(st))
			k++
		}
	}
	var chosen int
	if len(ready) == 0 {
		if !x.Blocking {
			res[0] = it.ctx.BV(^uint64(0), 64)
			return res
		}
		if it.job.OnBlockedSelect != nil {
			if c := it.job.OnBlockedSelect(it, x); c >= 0 {
				chosen = c
				goto take
			}
		}
		if it.threadsOn() {
			for i, st := range x.States {
				if st.Dir == types.RecvOnly && chans[i] != nil {
					chans[i].recvWaiting++
				}
			}
			it.block(func() bool {
				for i, st := range x.States {
					ch := chans[i]
					if ch == nil {
						continue
					}
					if st.Dir == types.SendOnly {
						if ch.closed || len(ch.buf) < ch.cp || (ch.cp == 0 && ch.recvWaiting > 0) {
							return true
						}
					} else if len(ch.buf) > 0 || len(ch.sendq) > 0 || ch.closed {
						return true
					}
				}
				return false
			}, "select")
			for i, st := range x.States {
				if st.Dir == types.RecvOnly && chans[i] != nil {
					chans[i].recvWaiting--
				}
			}
			return it.doSelect(fr, x)
		}
		panic(pathEnd{"blocked", "select with no ready case at " + it.site()})
	}
	if len(ready) == 1 {
		chosen = ready[0]
	} else {
		// Go picks uniformly among ready cases: explore all
		sel := it.fresh("select", SBV(8))
		conds := make([]*Term, len(ready))
		for j := range ready {
			if j == len(ready)-1 {
				conds[j] = it.ctx.ULE(it.ctx.BV(uint64(j), 8), sel)
			} else {
				conds[j] = it.ctx.Eq(sel, it.ctx.BV(uint64(j), 8))
			}
		}
		chosen = ready[it.decide(conds, "select@"+it.site())]
	}
take:
	res[0] = it.ctx.BV(uint64(chosen), 64)
	st := x.States[chosen]
	if st.Dir == types.SendOnly {
		it.chanSend(chans[chosen], sendVals[chosen])
	} else {
		v, ok := it.chanRecv(chans[chosen])
		res[recvSlot[chosen]] = v
		res[1] = it.ctx.Bool(ok)
	}
	return res
}

func chans0elem(st *ssa.SelectState) types.Type {
	return st.Chan.Type().Underlying().(*types.Chan).Elem()
}
