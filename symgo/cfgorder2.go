package main

import (
	"golang.org/x/tools/go/ssa"
	"golang.org/x/tools/go/ssa/ssautil"
)

var allFnCache = map[*ssa.Program]map[*ssa.Function]bool{}

func ssautilAll(prog *ssa.Program) map[*ssa.Function]bool {
	if m, ok := allFnCache[prog]; ok {
		return m
	}
	m := ssautil.AllFunctions(prog)
	allFnCache[prog] = m
	return m
}
