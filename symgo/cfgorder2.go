package main

import (
	"fmt"
	"go/constant"
	"go/types"
	"path/filepath"
	"sort"
	"strings"

	"golang.org/x/tools/go/ssa"
	"golang.org/x/tools/go/ssa/ssautil"
)

var allFnCache = map[*ssa.Program]map[*ssa.Function]bool{}

func ssautilAll(prog *ssa.Program) map[*ssa.Function]bool {
	if m, ok := allFnCache[prog]; ok {
		return m
	}
	m := ssautil.AllFunctions(prog)
	allFnCache[prog] = m
	return m
}


// checkMustPassAfter: every path that LEAVES an instruction satisfying src and reaches an instruction
// satisfying target goes through one satisfying must. Unlike checkMustPass the source block itself is not
// a target (the path starts after the source instruction); a target later in the source's own block, or
// in a block reachable without a must-block, is a bypass. Decided as SMT reachability over the CFG.
func checkMustPassAfter(prog *ssa.Program, fnName string, src, must, target func(ssa.Instruction) bool, ev map[string]interface{}, key string) (ok bool, inconclusive string, witness string) {
	fn := findFuncByString(prog, fnName)
	if fn == nil || fn.Blocks == nil {
		return false, "function " + fnName + " not found", ""
	}
	idx := func(b *ssa.BasicBlock, p func(ssa.Instruction) bool, from int) int {
		for i := from; i < len(b.Instrs); i++ {
			if p(b.Instrs[i]) {
				return i
			}
		}
		return -1
	}
	var srcBlocks []*ssa.BasicBlock
	isMust := map[int]bool{}
	for _, b := range fn.Blocks {
		if idx(b, must, 0) >= 0 {
			isMust[b.Index] = true
		}
		if si := idx(b, src, 0); si >= 0 {
			srcBlocks = append(srcBlocks, b)
			// a second target behind the source in the same block, without a must in between
			if ti := idx(b, target, si+1); ti >= 0 {
				if mi := idx(b, must, si+1); mi < 0 || mi > ti {
					return false, "", fmt.Sprintf("%s: block %d routes twice in a row", fnName, b.Index)
				}
			}
		}
	}
	if len(srcBlocks) == 0 || len(isMust) == 0 {
		return false, fmt.Sprintf("anchors not found in %s (sources %d, required steps %d)", fnName, len(srcBlocks), len(isMust)), ""
	}
	// reachability from the successors of the source blocks, must-blocks removed (a target inside a must-block
	// counts only if it precedes the must instruction)
	var sb strings.Builder
	sb.WriteString("(set-logic ALL)\n")
	for _, b := range fn.Blocks {
		fmt.Fprintf(&sb, "(declare-const r%d Bool)\n(declare-const l%d Int)\n", b.Index, b.Index)
	}
	start := map[int]bool{}
	for _, sbk := range srcBlocks {
		if isMust[sbk.Index] && idx(sbk, must, idx(sbk, src, 0)+1) >= 0 {
			continue // the must follows the source inside its block
		}
		for _, su := range sbk.Succs {
			start[su.Index] = true
		}
	}
	var ts []string
	for _, b := range fn.Blocks {
		ti := idx(b, target, 0)
		mi := idx(b, must, 0)
		entryOK := !(mi >= 0 && (ti < 0 || mi < ti)) // entering the block and reaching its target before any must
		var alts []string
		if start[b.Index] {
			alts = append(alts, fmt.Sprintf("(= l%d 0)", b.Index))
		}
		for _, p := range b.Preds {
			if isMust[p.Index] {
				continue // leaving a must-block means the must was passed
			}
			alts = append(alts, fmt.Sprintf("(and r%d (< l%d l%d))", p.Index, p.Index, b.Index))
		}
		fmt.Fprintf(&sb, "(assert (=> r%d (or %s false)))\n(assert (>= l%d 0))\n", b.Index, strings.Join(alts, " "), b.Index)
		if ti >= 0 && entryOK {
			ts = append(ts, fmt.Sprintf("r%d", b.Index))
		}
	}
	fmt.Fprintf(&sb, "(assert (or %s false))\n(check-sat)\n", strings.Join(ts, " "))
	res := runOneShot("z3-new", sb.String(), 30000)
	ev[key] = map[string]interface{}{"blocks": len(fn.Blocks), "sources": len(srcBlocks), "required_blocks": len(isMust), "bypass_candidates": len(ts), "result": res}
	switch res {
	case "unsat":
		return true, "", ""
	case "sat":
		return false, "", fmt.Sprintf("%s: a path from a routing call reaches another routing call without the required step in between", fnName)
	}
	return false, "solver " + res + " on must-pass query of " + fnName, ""
}

// checkHubArgs: in fn, every call of a peers.Hub method passes as session id a load of <sess>.ID of one
// and the same local (stored exactly once), and BroadcastExcept excepts the local named peerID.
func checkHubArgs(prog *ssa.Program, fnName string, ev map[string]interface{}) (violation string, inconclusive string) {
	fn := findFuncByString(prog, fnName)
	if fn == nil || fn.Blocks == nil {
		return "", "function " + fnName + " not found"
	}
	var base ssa.Value
	calls := 0
	for _, b := range fn.Blocks {
		for _, ins := range b.Instrs {
			c, ok := ins.(*ssa.Call)
			if !ok {
				continue
			}
			n := calleeName(&c.Call)
			if !strings.Contains(n, "peers.Hub).") {
				continue
			}
			m := n[strings.LastIndex(n, ".")+1:]
			switch m {
			case "SendTo", "BroadcastExcept", "Broadcast", "Add", "List", "CloseSession":
			default:
				continue
			}
			calls++
			if len(c.Call.Args) < 2 {
				return "", "unexpected arity of " + n
			}
			ld, ok := c.Call.Args[1].(*ssa.UnOp)
			if !ok {
				return "", fmt.Sprintf("session argument of %s has a shape this obligation does not trace (%s)", m, c.Call.Args[1])
			}
			fa, ok := ld.X.(*ssa.FieldAddr)
			if !ok {
				return "", fmt.Sprintf("session argument of %s has a shape this obligation does not trace (%s)", m, ld.X)
			}
			if strings.HasSuffix(fa.X.Type().String(), "protocol.Envelope") {
				// taken from the message the peer sent: the peer chooses the session
				return fmt.Sprintf("%s: %s is given a session id read from the received envelope (%s)", fnName, m, fa), ""
			}
			st, ok := fa.X.Type().Underlying().(*types.Pointer).Elem().Underlying().(*types.Struct)
			if !ok || st.Field(fa.Field).Name() != "ID" || !strings.HasSuffix(fa.X.Type().String(), "session.Session") {
				return "", fmt.Sprintf("session argument of %s is %s: not traced", m, fa)
			}
			if base == nil {
				base = fa.X
			} else if base != fa.X {
				return fmt.Sprintf("%s: %s names a different session value than the other hub calls", fnName, m), ""
			}
			if m == "BroadcastExcept" {
				ex, ok := c.Call.Args[2].(*ssa.UnOp)
				if ok {
					if fa2, ok2 := ex.X.(*ssa.FieldAddr); ok2 && strings.HasSuffix(fa2.X.Type().String(), "protocol.Envelope") {
						return fmt.Sprintf("%s: BroadcastExcept excepts a peer id read from the received envelope (%s)", fnName, fa2), ""
					}
				}
				if !ok || !(strings.Contains(valueComment(ex.X), "peerID") || debugName(ex) == "peerID" || strings.Contains(ex.X.Name()+ex.X.String(), "peerID")) {
					return "", fmt.Sprintf("BroadcastExcept's excepted peer has a shape this obligation does not trace (%s)", c.Call.Args[2])
				}
			}
		}
	}
	if calls == 0 || base == nil {
		return "", "no hub calls found in " + fnName
	}
	stores := 0
	if refs := base.Referrers(); refs != nil {
		for _, r := range *refs {
			if s, ok := r.(*ssa.Store); ok && s.Addr == base {
				stores++
			}
		}
	}
	ev["cfg:handleWebSocket hub-arguments"] = map[string]interface{}{"hub_calls": calls, "stores_to_session_variable": stores}
	if stores != 1 {
		return fmt.Sprintf("%s: the session variable is assigned %d times", fnName, stores), ""
	}
	return "", ""
}

// checkWidenedProducts: in the given package, a 32-bit (or narrower) integer product or shift whose
// result is converted to a 64-bit integer wraps before it is widened - the classic way an offset
// index*chunkSize goes wrong beyond 4 GiB. For every such site the solver is asked whether operand
// values exist for which the narrow result differs from the wide one (always the case unless an operand
// is a constant that rules it out); each satisfiable site is reported with its witness.
func checkWidenedProducts(prog *ssa.Program, pkgSuffix string, ev map[string]interface{}) []string {
	var out []string
	sites, asked, ignored := 0, 0, 0
	for fn := range ssautilAll(prog) {
		if fn.Pkg == nil || !strings.HasSuffix(fn.Pkg.Pkg.Path(), pkgSuffix) || fn.Blocks == nil {
			continue
		}
		if pos := prog.Fset.Position(fn.Pos()); strings.Contains(pos.Filename, "zz_verif") || strings.HasSuffix(pos.Filename, "_test.go") {
			continue
		}
		for _, b := range fn.Blocks {
			for _, ins := range b.Instrs {
				cv, ok := ins.(*ssa.Convert)
				if !ok {
					continue
				}
				tw, _, tok := isInt(cv.Type())
				bo, isBin := cv.X.(*ssa.BinOp)
				if !tok || tw != 64 || !isBin {
					continue
				}
				sw, _, sok := isInt(bo.X.Type())
				if !sok || sw >= 64 {
					continue
				}
				op := bo.Op.String()
				if op != "*" && op != "<<" {
					continue
				}
				if !mentionsChunk(bo.X) && !mentionsChunk(bo.Y) {
					ignored++ // not chunk geometry: outside this obligation
					continue
				}
				sites++
				// operands: constants keep their value, everything else is free
				decl := ""
				term := func(v ssa.Value, name string) string {
					if c, ok := v.(*ssa.Const); ok && c.Value != nil {
						if u, ok2 := constUint64(c); ok2 {
							return fmt.Sprintf("(_ bv%d %d)", u&((1<<uint(sw))-1), sw)
						}
					}
					decl += fmt.Sprintf("(declare-const %s (_ BitVec %d))\n", name, sw)
					return name
				}
				x, y := term(bo.X, "x"), term(bo.Y, "y")
				smtop := "bvmul"
				if op == "<<" {
					smtop = "bvshl"
				}
				ext := 64 - sw
				q := fmt.Sprintf("(set-logic ALL)\n%s(assert (not (= ((_ zero_extend %d) (%s %s %s)) (%s ((_ zero_extend %d) %s) ((_ zero_extend %d) %s)))))\n(check-sat)\n", decl, ext, smtop, x, y, smtop, ext, x, ext, y)
				asked++
				if res := runOneShot("z3-new", q, 10000); res != "unsat" {
					pos := prog.Fset.Position(cv.Pos())
					if !pos.IsValid() {
						pos = prog.Fset.Position(bo.Pos())
					}
					out = append(out, fmt.Sprintf("%s: %s (%d-bit %s) is widened to 64 bits after it may have wrapped (%s:%d) [solver: %s]", fn.String(), bo.String(), sw, op, filepath.Base(pos.Filename), pos.Line, res))
				}
			}
		}
	}
	ev["cfg:widened narrow products"] = map[string]interface{}{"sites": sites, "queries": asked, "reported": len(out), "narrow_products_without_chunk_operands": ignored}
	sort.Strings(out)
	return out
}

func constUint64(c *ssa.Const) (uint64, bool) {
	if c.Value == nil {
		return 0, false
	}
	if v, ok := constant.Uint64Val(constant.ToInt(c.Value)); ok {
		return v, true
	}
	if v, ok := constant.Int64Val(constant.ToInt(c.Value)); ok {
		return uint64(v), true
	}
	return 0, false
}


// mentionsChunk: the value is (a load / conversion / field of) something named after a chunk index, size,
// length or count - the operands of offset arithmetic.
func mentionsChunk(v ssa.Value) bool {
	for depth := 0; depth < 6 && v != nil; depth++ {
		name := strings.ToLower(v.Name() + " " + debugName(v) + " " + valueComment(v))
		if fa, ok := v.(*ssa.FieldAddr); ok {
			if st, ok := fa.X.Type().Underlying().(*types.Pointer).Elem().Underlying().(*types.Struct); ok {
				name += " " + strings.ToLower(st.Field(fa.Field).Name())
			}
		}
		if f, ok := v.(*ssa.Field); ok {
			if st, ok := f.X.Type().Underlying().(*types.Struct); ok {
				name += " " + strings.ToLower(st.Field(f.Field).Name())
			}
		}
		if p, ok := v.(*ssa.Parameter); ok {
			name += " " + strings.ToLower(p.Name())
		}
		if strings.Contains(name, "chunk") || strings.Contains(name, "idx") {
			return true
		}
		switch x := v.(type) {
		case *ssa.UnOp:
			v = x.X
		case *ssa.Convert:
			v = x.X
		case *ssa.ChangeType:
			v = x.X
		case *ssa.FieldAddr:
			return false
		default:
			return false
		}
	}
	return false
}

// checkReleaseAfterAcquire: for every call of acquire in fn whose boolean result decides an If, every CFG path
// from the success edge to a Return passes an instruction satisfying release (call or defer). Decided as SMT
// reachability over the CFG with release-blocks removed. Unknown shapes (result not branched on) are inconclusive.
func checkReleaseAfterAcquire(prog *ssa.Program, fnName string, acquire, release func(ssa.Instruction) bool, ev map[string]interface{}, key string) (ok bool, inconclusive string, witness string) {
	fn := findFuncByString(prog, fnName)
	if fn == nil || fn.Blocks == nil {
		return false, "function " + fnName + " not found", ""
	}
	has := func(b *ssa.BasicBlock, p func(ssa.Instruction) bool) bool {
		for _, ins := range b.Instrs {
			if p(ins) {
				return true
			}
		}
		return false
	}
	start := map[int]bool{}
	acquires := 0
	for _, b := range fn.Blocks {
		for _, ins := range b.Instrs {
			c, isCall := ins.(*ssa.Call)
			if !isCall || !acquire(ins) {
				continue
			}
			acquires++
			found := false
			for _, ref := range *c.Referrers() {
				iff, isIf := ref.(*ssa.If)
				if !isIf || iff.Cond != ssa.Value(c) {
					continue
				}
				found = true
				start[iff.Block().Succs[0].Index] = true
			}
			if !found {
				return false, "result of Acquire in " + fnName + " is not branched on directly", ""
			}
		}
	}
	if acquires == 0 {
		return false, "no Acquire call in " + fnName, ""
	}
	isRel := map[int]bool{}
	for _, b := range fn.Blocks {
		if has(b, release) {
			isRel[b.Index] = true
		}
	}
	var sb strings.Builder
	sb.WriteString("(set-logic ALL)\n")
	for _, b := range fn.Blocks {
		fmt.Fprintf(&sb, "(declare-const r%d Bool)\n(declare-const l%d Int)\n", b.Index, b.Index)
	}
	var ts []string
	for _, b := range fn.Blocks {
		var alts []string
		if start[b.Index] {
			alts = append(alts, fmt.Sprintf("(= l%d 0)", b.Index))
		}
		for _, p := range b.Preds {
			if isRel[p.Index] {
				continue
			}
			alts = append(alts, fmt.Sprintf("(and r%d (< l%d l%d))", p.Index, p.Index, b.Index))
		}
		fmt.Fprintf(&sb, "(assert (=> r%d (or %s false)))\n(assert (>= l%d 0))\n", b.Index, strings.Join(alts, " "), b.Index)
		if !isRel[b.Index] && has(b, func(i ssa.Instruction) bool { _, r := i.(*ssa.Return); return r }) {
			ts = append(ts, fmt.Sprintf("r%d", b.Index))
		}
	}
	fmt.Fprintf(&sb, "(assert (or %s false))\n(check-sat)\n", strings.Join(ts, " "))
	res := runOneShot("z3-new", sb.String(), 30000)
	ev[key] = map[string]interface{}{"blocks": len(fn.Blocks), "acquire_calls": acquires, "success_edges": len(start), "release_blocks": len(isRel), "return_blocks_without_release": len(ts), "result": res}
	switch res {
	case "unsat":
		return true, "", ""
	case "sat":
		return false, "", fmt.Sprintf("%s: a path from the success edge of Acquire reaches a return without calling or deferring Release", fnName)
	}
	return false, "solver " + res + " on release-after-acquire query of " + fnName, ""
}
