package main

// Closure units: run an anonymous function that lives inside a large orchestration function, with
// its captured variables bound by source name (DESIGN §2.5). Captured variables are go/ssa FreeVars of
// pointer type (cells of the parent's frame); closures captured by other closures are re-materialised
// recursively over the same cell table, so they share state exactly as in the real frame.

import (
	"fmt"
	"go/ast"
	"go/types"
	"sort"
	"strings"

	"golang.org/x/tools/go/ssa"
)

type ClosureEnv struct {
	it     *Interp
	parent *ssa.Function
	cells  map[string]*Cell
	byName map[string][]*ssa.MakeClosure
	made   map[*ssa.Function]*Closure
	ZeroDefault map[string]bool // free variables that may default to a zero cell
	Unbound []string
}

func allNested(fn *ssa.Function, out *[]*ssa.Function) {
	*out = append(*out, fn)
	for _, a := range fn.AnonFuncs {
		allNested(a, out)
	}
}

func (it *Interp) newClosureEnv(pkgSuffix, parentName string) *ClosureEnv {
	parent := findPkgFunc(it.prog, pkgSuffix, parentName)
	if parent == nil {
		it.inconclusive("parent function " + parentName + " not found")
	}
	ce := &ClosureEnv{it: it, parent: parent, cells: map[string]*Cell{}, byName: map[string][]*ssa.MakeClosure{}, made: map[*ssa.Function]*Closure{}, ZeroDefault: map[string]bool{}}
	var fns []*ssa.Function
	allNested(parent, &fns)
	for _, f := range fns {
		for _, b := range f.Blocks {
			for _, ins := range b.Instrs {
				mc, ok := ins.(*ssa.MakeClosure)
				if !ok {
					continue
				}
				for _, n := range closureNames(mc) {
					ce.byName[n] = append(ce.byName[n], mc)
				}
			}
		}
	}
	return ce
}

func closureNames(mc *ssa.MakeClosure) []string {
	var out []string
	seen := map[string]bool{}
	if mc.Referrers() == nil {
		return nil
	}
	for _, r := range *mc.Referrers() {
		switch x := r.(type) {
		case *ssa.Store:
			if a, ok := x.Addr.(*ssa.Alloc); ok && a.Comment != "" && !seen[a.Comment] {
				seen[a.Comment] = true
				out = append(out, a.Comment)
			}
		case *ssa.DebugRef:
			if id, ok := x.Expr.(*ast.Ident); ok && !seen[id.Name] {
				seen[id.Name] = true
				out = append(out, id.Name)
			}
		}
	}
	return out
}

// FindClosure returns the function of the closure assigned to the named local variable.
func (ce *ClosureEnv) FindClosure(name string) *ssa.Function {
	mcs := ce.byName[name]
	if len(mcs) == 0 {
		ce.it.inconclusive("closure " + name + " not found in " + ce.parent.Name() + " (renamed?)")
	}
	if len(mcs) > 1 {
		ce.it.inconclusive(fmt.Sprintf("closure name %s is ambiguous in %s (%d definitions)", name, ce.parent.Name(), len(mcs)))
	}
	return mcs[0].Fn.(*ssa.Function)
}

// FindGoLiteral returns the k-th (0-based) anonymous function started with `go` inside fn (searched
// recursively in source order) whose body calls a function whose name contains callee.
func (ce *ClosureEnv) FindGoLiteral(callee string) *ssa.Function {
	var fns []*ssa.Function
	allNested(ce.parent, &fns)
	var hits []*ssa.Function
	for _, f := range fns {
		for _, b := range f.Blocks {
			for _, ins := range b.Instrs {
				g, ok := ins.(*ssa.Go)
				if !ok {
					continue
				}
				var lit *ssa.Function
				switch v := g.Call.Value.(type) {
				case *ssa.MakeClosure:
					lit, _ = v.Fn.(*ssa.Function)
				case *ssa.Function:
					lit = v
				}
				if lit == nil || lit.Parent() == nil {
					continue
				}
				if callsNamed(lit, callee) {
					hits = append(hits, lit)
				}
			}
		}
	}
	if len(hits) != 1 {
		ce.it.inconclusive(fmt.Sprintf("%d go-literals calling %s in %s (expected 1)", len(hits), callee, ce.parent.Name()))
	}
	return hits[0]
}

func callsNamed(fn *ssa.Function, callee string) bool {
	for _, b := range fn.Blocks {
		for _, ins := range b.Instrs {
			if c, ok := ins.(ssa.CallInstruction); ok {
				if strings.Contains(calleeName(c.Common()), callee) {
					return true
				}
			}
		}
	}
	return false
}

// Set binds a captured variable (by source name) to a value.
func (ce *ClosureEnv) Set(name string, t types.Type, v Value) *Cell {
	c := ce.it.newCell(t, ce.it.newObject("captured "+name))
	ce.it.storeCell(c, v)
	ce.cells[name] = c
	return c
}

func (ce *ClosureEnv) Get(name string) Value {
	c := ce.cells[name]
	if c == nil {
		ce.it.inconclusive("captured variable " + name + " not bound")
	}
	return ce.it.loadCell(c)
}

// Closure materialises the closure value for fn, binding its free variables by name.
func (ce *ClosureEnv) Closure(fn *ssa.Function) *Closure {
	if c, ok := ce.made[fn]; ok {
		return c
	}
	cl := &Closure{fn: fn, bind: make([]Value, len(fn.FreeVars))}
	ce.made[fn] = cl
	for i, fv := range fn.FreeVars {
		name := fv.Name()
		pt, isPtr := fv.Type().(*types.Pointer)
		if !isPtr {
			// captured by value (rare): look up a cell and load it
			if c := ce.cells[name]; c != nil {
				cl.bind[i] = ce.it.loadCell(c)
				continue
			}
			ce.it.inconclusive("unbound live-in " + name + " (by value) of " + fn.Name())
		}
		if c := ce.cells[name]; c != nil {
			if !types.Identical(c.typ, pt.Elem()) {
				ce.it.inconclusive(fmt.Sprintf("captured variable %s has type %s, bound as %s", name, pt.Elem(), c.typ))
			}
			cl.bind[i] = &Ptr{c: c}
			continue
		}
		// a captured closure variable: re-materialise the real closure over the same cells
		if _, isFunc := pt.Elem().Underlying().(*types.Signature); isFunc {
			if mcs := ce.byName[name]; len(mcs) == 1 {
				c := ce.it.newCell(pt.Elem(), ce.it.newObject("captured "+name))
				ce.cells[name] = c
				c.v = ce.Closure(mcs[0].Fn.(*ssa.Function))
				cl.bind[i] = &Ptr{c: c}
				continue
			}
		}
		if ce.ZeroDefault[name] || ce.ZeroDefault["*"] {
			c := ce.it.newCell(pt.Elem(), ce.it.newObject("captured "+name+" (zero)"))
			ce.cells[name] = c
			cl.bind[i] = &Ptr{c: c}
			continue
		}
		ce.it.inconclusive("unbound live-in " + name + " of " + fn.Name())
	}
	return cl
}

func (ce *ClosureEnv) Call(fn *ssa.Function, args ...Value) Value {
	cl := ce.Closure(fn)
	return ce.it.call(cl.fn, args, cl.bind)
}

// FreeVarNames lists the captured variables of fn (for evidence / glue-consistency reports).
func FreeVarNames(fn *ssa.Function) []string {
	var out []string
	for _, fv := range fn.FreeVars {
		out = append(out, fv.Name())
	}
	sort.Strings(out)
	return out
}

// ---------------------------------------------------------------------------------------
// Engine-side construction of values of repository types

func (it *Interp) namedType(pkgSuffix, name string) types.Type {
	for _, p := range it.prog.AllPackages() {
		if strings.HasSuffix(p.Pkg.Path(), pkgSuffix) {
			if o := p.Pkg.Scope().Lookup(name); o != nil {
				return o.Type()
			}
		}
	}
	it.inconclusive("type " + pkgSuffix + "." + name + " not found")
	return nil
}

// newStruct allocates a struct of the named type and sets fields by name; returns pointer and cell.
func (it *Interp) newStruct(t types.Type, fields map[string]Value) (*Ptr, *Cell) {
	c := it.newCell(t, it.newObject("engine "+t.String()))
	it.setFields(c, fields)
	return &Ptr{c: c}, c
}

func (it *Interp) setFields(c *Cell, fields map[string]Value) {
	st, ok := c.typ.Underlying().(*types.Struct)
	if !ok {
		it.inconclusive("setFields on non-struct " + c.typ.String())
	}
	for name, v := range fields {
		found := false
		for i := 0; i < st.NumFields(); i++ {
			if st.Field(i).Name() == name {
				it.storeCell(c.kids[i], v)
				found = true
				break
			}
		}
		if !found {
			it.inconclusive(fmt.Sprintf("field %s not found in %s (renamed?)", name, c.typ))
		}
	}
}

func (it *Interp) field(c *Cell, name string) *Cell {
	st, ok := c.typ.Underlying().(*types.Struct)
	if !ok {
		it.inconclusive("field on non-struct " + c.typ.String())
	}
	for i := 0; i < st.NumFields(); i++ {
		if st.Field(i).Name() == name {
			return c.kids[i]
		}
	}
	it.inconclusive(fmt.Sprintf("field %s not found in %s (renamed?)", name, c.typ))
	return nil
}

func (it *Interp) structVal(t types.Type, fields map[string]Value) *StructV {
	_, c := it.newStruct(t, fields)
	return it.loadCell(c).(*StructV)
}

// engine-side assertion (same policy as vAssert)
func (it *Interp) Assert(c *Term, msg string) {
	hAssert(it, nil, []Value{c, it.constString(msg)})
}

func (it *Interp) Cover(msg string) { it.covers[msg] = true }

// symbolic input declared by an engine-side harness
func (it *Interp) In(name, kind string, w int) *Term {
	return it.input(it.constString(name), kind, w).(*Term)
}

func (it *Interp) InBytes(name string, n int) []*Term {
	s := hBytes(it, nil, []Value{it.constString(name), it.ctx.BV(uint64(n), 64)}).(*SliceV)
	return it.bytesOfSlice(s)
}

func (it *Interp) Choice(name string, n int) int {
	v := hChoice(it, nil, []Value{it.constString(name), it.ctx.BV(uint64(n), 64)}).(*Term)
	return int(v.V)
}

func (it *Interp) methodOf(recvType types.Type, name string) *ssa.Function {
	var pkg *types.Package
	if n, ok := derefNamed(recvType); ok {
		pkg = n.Obj().Pkg()
	}
	m := it.safeLookup(recvType, pkg, name)
	if m == nil {
		it.inconclusive("method " + name + " not found on " + recvType.String())
	}
	return m
}


// safeLookup is prog.LookupMethod that returns nil instead of panicking when the method does not exist.
func (it *Interp) safeLookup(t types.Type, pkg *types.Package, name string) *ssa.Function {
	sel := it.prog.MethodSets.MethodSet(t).Lookup(pkg, name)
	if sel == nil && pkg == nil {
		if n, ok := derefNamed(t); ok && n.Obj().Pkg() != nil {
			sel = it.prog.MethodSets.MethodSet(t).Lookup(n.Obj().Pkg(), name)
		}
	}
	if sel == nil {
		return nil
	}
	return it.prog.MethodValue(sel)
}

// Assume is the engine-side vAssume: ends the path when the assumption is infeasible.
func (it *Interp) Assume(c *Term) { harnessAPI["vAssume"](it, nil, []Value{c}) }


// callReal calls fn's real body from inside a stub registered for fn (observation wrappers).
func (it *Interp) callReal(fn *ssa.Function, args []Value) Value {
	it.skipStub = fn
	return it.call(fn, args, nil)
}
