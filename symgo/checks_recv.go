package main

// Closure units of RecvManifestMultiStream: the per-stream data reader (one frame), handleFileBegin,
// finalizeFile, buildResumeInfo. The frame (captured variables) is reconstructed by name; closures
// that call one another are re-materialised over the same cells.

import (
	"fmt"
	"go/types"
	"strings"

	"golang.org/x/tools/go/ssa"
)

type recvFrame struct {
	it        *Interp
	ce        *ClosureEnv
	optsCell  *Cell
	doneCalls []bool // ok flags of FileDoneFn calls (ghost)
	doneCh    *ChanObj
	dataErrCh *ChanObj
	ctrlWrite *ChanObj
	stateByKey, doneKeys, stateByRelPath, expectedFiles, itemByRelPath *MapObj
	completed *Cell
	total     *Cell
	stateT    types.Type
}

func (it *Interp) mkMap(k, v types.Type) *MapObj {
	it.mapSeq++
	return &MapObj{typ: types.NewMap(k, v), id: it.mapSeq}
}

func (it *Interp) mkChan(elem types.Type, cp int, label string) *ChanObj {
	it.chanSeq++
	return &ChanObj{cp: cp, elem: elem, id: it.chanSeq, label: label}
}

func fvElem(it *Interp, fn *ssa.Function, name string) types.Type {
	return fn.FreeVars[indexOfFreeVar(it, fn, name)].Type().(*types.Pointer).Elem()
}

// newRecvFrame builds the captured environment of RecvManifestMultiStream's closures.
func newRecvFrame(it *Interp, resume, noRootDir bool, baseDir, rootedDir string, totalFiles int) *recvFrame {
	rf := &recvFrame{it: it}
	ce := it.newClosureEnv(tpkg, "RecvManifestMultiStream")
	rf.ce = ce
	fin := ce.FindClosure("finalizeFile")
	hfb := ce.FindClosure("handleFileBegin")
	reader := ce.FindGoLiteral("markChunkComplete")
	rf.stateT = it.namedType(tpkg, "recvFileStateMux")
	optsT := it.namedType(tpkg, "Options")
	doneFnT := it.namedType(tpkg, "FileDoneFn")
	_ = doneFnT
	opts := it.zero(optsT).(*StructV)
	rf.optsCell = ce.Set("opts", optsT, opts)
	it.setFields(rf.optsCell, map[string]Value{
		"Resume":    it.ctx.Bool(resume),
		"NoRootDir": it.ctx.Bool(noRootDir),
		"FileDoneFn": &EngineFunc{"FileDoneFn", func(it *Interp, a []Value) Value {
			ok := it.term(a[1], "ok")
			rf.doneCalls = append(rf.doneCalls, ok.IsTrue())
			return nil
		}},
	})
	ctxv := &IfaceV{T: ctxT, V: it.newCtx(nil, "recvCtx")}
	ce.Set("recvCtx", fvElem(it, fin, "recvCtx"), ctxv)
	ce.Set("stateMu", fvElem(it, fin, "stateMu"), it.zero(fvElem(it, fin, "stateMu")))
	ce.Set("statsMu", fvElem(it, fin, "statsMu"), it.zero(fvElem(it, fin, "statsMu")))
	ce.Set("activeCount", types.Typ[types.Int], it.ctx.BV(1, 64))
	rf.completed = ce.Set("completedCount", types.Typ[types.Int], it.ctx.BV(0, 64))
	ce.Set("remainingBytes", types.Typ[types.Int64], it.ctx.BV(1000, 64))
	rf.total = ce.Set("totalFiles", types.Typ[types.Int], it.ctx.BV(uint64(totalFiles), 64))
	cwT := fvElem(it, fin, "controlWriteCh").Underlying().(*types.Chan)
	rf.ctrlWrite = it.mkChan(cwT.Elem(), 8, "controlWriteCh")
	ce.Set("controlWriteCh", fvElem(it, fin, "controlWriteCh"), rf.ctrlWrite)
	dcT := fvElem(it, fin, "doneCh").Underlying().(*types.Chan)
	rf.doneCh = it.mkChan(dcT.Elem(), 1, "doneCh")
	ce.Set("doneCh", fvElem(it, fin, "doneCh"), rf.doneCh)
	deT := fvElem(it, reader, "dataErrCh").Underlying().(*types.Chan)
	rf.dataErrCh = it.mkChan(deT.Elem(), 2, "dataErrCh")
	ce.Set("dataErrCh", fvElem(it, reader, "dataErrCh"), rf.dataErrCh)
	mk := func(fn *ssa.Function, name string) *MapObj {
		mt := fvElem(it, fn, name).Underlying().(*types.Map)
		m := it.mkMap(mt.Key(), mt.Elem())
		ce.Set(name, fvElem(it, fn, name), m)
		return m
	}
	rf.stateByKey = mk(fin, "stateByKey")
	rf.stateByRelPath = mk(fin, "stateByRelPath")
	rf.doneKeys = mk(fin, "doneKeys")
	rf.expectedFiles = mk(hfb, "expectedFiles")
	rf.itemByRelPath = mk(hfb, "itemByRelPath")
	frT := fvElem(it, hfb, "fileReady")
	ce.Set("fileReady", frT, it.call(findPkgFunc(it.prog, tpkg, "newFileWaitRegistry"), nil, nil))
	ce.Set("baseDir", types.Typ[types.String], it.constString(baseDir))
	ce.Set("rootedDir", types.Typ[types.String], it.constString(rootedDir))
	return rf
}

// memStream builds a *vMemStream (harness type) over the given bytes as a transfer.Stream value.
func (it *Interp) memStream(b []*Term) (*IfaceV, *Cell) {
	t := it.namedType(tpkg, "vMemStream")
	p, c := it.newStruct(t, map[string]Value{"buf": it.newByteSlice(b, "stream")})
	return &IfaceV{T: types.NewPointer(t), V: p}, c
}

func be(c *Ctx, t *Term) []*Term {
	n := t.S.W / 8
	out := make([]*Term, n)
	for i := 0; i < n; i++ {
		k := n - 1 - i
		out[i] = c.Extract(t, k*8+7, k*8)
	}
	return out
}

// jobRecvReader: one frame through the real per-stream reader closure.
func jobRecvReader(id string, maxTotal int, faults bool) *Job {
	j := &Job{ID: id, Pkg: tpkg, Desc: "one data frame through the per-stream reader closure of RecvManifestMultiStream"}
	j.GoInline = func(label string) bool { return true }
	j.TimersNeverFire = true
	j.MaxFileSize = 4*maxTotal + 4
	j.ReplayTest = "TestVerifRecvReplay"
	j.ReplayInstr = []SrcInsert{{File: "internal/transfer/multistream.go", Anchor: "func (s *recvFileStateMux) markChunkComplete(idx uint32, chunkLen uint32) (bool, int64) {",
		Text: "\tif vOnMark != nil {\n\t\tvOnMark(s.filePath, s.chunkSize, idx, chunkLen)\n\t}"}}
	if faults {
		j.FSFaults = func(op string) bool { return op == "writeat" || op == "open" }
	}
	// observation wrapper: where in the effect log does the reader mark the chunk?
	j.Stubs = map[string]interceptFn{
		"(*" + repoModule + "/internal/transfer.recvFileStateMux).markChunkComplete": func(it *Interp, fn *ssa.Function, a []Value) Value {
			n := 0
			for _, e := range it.fs.log {
				if e.Kind == "write" {
					if s, _ := e.Path.concrete(); s == "/out/f" {
						n++
					}
				}
			}
			it.ghost["writesAtMark"] = it.ctx.BV(uint64(n), 64)
			return it.callReal(fn, a)
		},
	}
	j.Run = func(it *Interp) {
		c := it.ctx
		total := 1 + it.Choice("totalMinus1", maxTotal)
		cs := uint64(4)
		size := it.In("size", "i64", 64)
		it.Assume(c.SLE(c.BV(0, 64), size))
		it.Assume(c.SLE(size, c.BV(cs*uint64(maxTotal), 64)))
		ct := it.call(findPkgFunc(it.prog, tpkg, "chunkTotal"), []Value{size, c.BV(cs, 32)}, nil).(*Term)
		it.Assume(c.Eq(ct, c.BV(uint64(total), 32)))
		withSidecar := it.Choice("sidecar", 2) == 0
		rf := newRecvFrame(it, withSidecar, false, "/out", "/out", 1)
		reader := rf.ce.FindGoLiteral("markChunkComplete")

		// file on disk with arbitrary previous content of the final size (handleFileBegin truncates to size)
		szc := it.concretize(size, int(cs)*maxTotal+1, "choice size")
		old := it.InBytes("oldContent", szc)
		it.fs.nodes = append(it.fs.nodes, &FSNode{path: it.constString("/out"), dir: true}, &FSNode{path: it.constString("/out/f"), data: append([]*Term{}, old...)})

		key := c.BV(7, 64)
		itemT := it.namedType("pkg/manifest", "FileItem")
		item := it.structVal(itemT, map[string]Value{"RelPath": it.constString("f"), "Size": size, "ID": it.constString("id")})
		remaining := it.In("remaining", "u32", 32)
		it.Assume(c.ULE(c.BV(1, 32), remaining))
		it.Assume(c.ULE(remaining, c.BV(uint64(total), 32)))
		fields := map[string]Value{"key": key, "item": item, "filePath": it.constString("/out/f"), "chunkSize": c.BV(cs, 32), "totalChunks": c.BV(uint64(total), 32), "hashAlg": c.BV(1, 8), "remaining": remaining}
		var bm []*Term
		var bmCell *Cell
		if withSidecar {
			nb := (total + 7) / 8
			bm = it.InBytes("bitmap", nb)
			if total%8 != 0 {
				it.Assume(c.Eq(c.Lshr(bm[nb-1], c.BV(uint64(total%8), 8)), c.BV(0, 8)))
			}
			pop := c.BV(0, 32)
			for i := 0; i < total; i++ {
				pop = c.Add(pop, c.Ite(bitOf(c, bm, i), c.BV(1, 32), c.BV(0, 32)))
			}
			it.Assume(c.Eq(c.Add(pop, remaining), c.BV(uint64(total), 32))) // frame invariant: remaining + marked = total
			bmT := it.namedType(tpkg, "Bitmap")
			bs := it.newByteSlice(bm, "bitmap")
			bmCell = bs.arr
			bmp, _ := it.newStruct(bmT, map[string]Value{"bits": c.BV(uint64(total), 64), "data": bs})
			scT := it.namedType(tpkg, "Sidecar")
			scp, _ := it.newStruct(scT, map[string]Value{"Path": it.constString("/out/.thruflux_resumedata/id.sbxmap"), "FileID": it.constString("id"), "FileSize": size, "ChunkSize": c.BV(cs, 32), "TotalChunks": c.BV(uint64(total), 32), "bitmap": bmp})
			fields["sidecar"] = scp
		}
		statePtr, stateCell := it.newStruct(rf.stateT, fields)
		it.mapSet(rf.stateByKey, key, statePtr)
		it.mapSet(rf.stateByRelPath, it.constString("f"), statePtr)

		// the frame
		idx := it.In("chunkIndex", "u32", 32)
		ln := it.In("chunkLen", "u32", 32)
		crc := it.In("chunkCRC", "u32", 32)
		plen := it.Choice("payloadBytes", int(cs)+2) // bytes actually present after the header
		payload := it.InBytes("payload", plen)
		frame := append(append(append(append(be(c, key), be(c, idx)...), be(c, ln)...), be(c, crc)...), payload...)
		stream, _ := it.memStream(frame)

		logStart := len(it.fs.log)
		rf.ce.Call(reader, stream)
		it.Cover("reader: returned")

		// outcome on dataErrCh
		if len(rf.dataErrCh.buf) != 1 {
			it.Assert(c.False, "the reader reports exactly one result per stream")
			return
		}
		errv := rf.dataErrCh.buf[0].(*IfaceV)
		failed := errv.T != nil

		// what was written
		var writes []FSEffect
		for _, e := range it.fs.log[logStart:] {
			if e.Kind == "write" || e.Kind == "truncate" || e.Kind == "create" || e.Kind == "remove" || e.Kind == "rename" {
				if s, _ := e.Path.concrete(); s == "/out/f" {
					writes = append(writes, e)
				} else if !strings.HasPrefix(s, "/out/.thruflux_resumedata/") {
					it.Assert(c.False, "the reader touches only the output file and its resume metadata")
				}
			}
		}
		inRange := c.ULT(idx, c.BV(uint64(total), 32))
		// accepted: the announced length k is 1..chunkSize, fully present, and its CRC matches
		accepted := c.False
		for k := 1; k <= int(cs) && k <= plen; k++ {
			data := it.newByteSlice(payload[:k], "chk")
			sum := it.crc(0x82f63b78, c.BV(0, 32), data).(*Term)
			accepted = c.Or(accepted, c.And(c.Eq(ln, c.BV(uint64(k), 32)), c.Eq(sum, crc)))
		}
		crcMatches := it.In("crcMatches", "bool", 0)
		it.Assume(c.Eq(crcMatches, accepted))
		accepted = c.And(accepted, inRange)
		if len(writes) > 1 {
			it.Assert(c.False, "one frame causes at most one write to the output file")
		}
		for _, w := range writes {
			it.Cover("reader: wrote")
			it.Assert(c.Bool(w.Kind == "write"), "the reader only writes chunk data to the output file")
			it.Assert(accepted, "only a complete, in-range chunk with a matching CRC is written")
			it.Assert(c.Eq(w.Off, c.Mul(c.ZExt(idx, 64), c.BV(cs, 64))), "the chunk is written at index x chunkSize")
			it.Assert(c.Eq(ln, c.BV(uint64(len(w.Data)), 32)), "the write has the announced chunk length")
			if len(w.Data) <= plen {
				eq := c.True
				for i := range w.Data {
					eq = c.And(eq, c.Eq(w.Data[i], payload[i]))
				}
				it.Assert(eq, "the bytes written are the payload received")
			} else {
				it.Assert(c.False, "no more bytes are written than were received")
			}
		}
		if wm, ok := it.ghost["writesAtMark"].(*Term); ok {
			it.Assert(c.Bool(wm.V == 1), "a chunk is marked complete only after its write has returned")
		}
		// resume metadata: a newly set bit implies the chunk's write completed
		if withSidecar {
			post := it.bytesOfSlice(&SliceV{arr: bmCell, off: 0, ln: len(bm), cp: len(bm), elem: types.Typ[types.Uint8]})
			for i := 0; i < total; i++ {
				newly := c.And(bitOf(c, post, i), c.Not(bitOf(c, bm, i)))
				wrote := c.False
				if len(writes) == 1 {
					wrote = c.And(accepted, c.Eq(idx, c.BV(uint64(i), 32)))
				}
				it.Assert(c.Implies(newly, wrote), "resume metadata marks a chunk only after its bytes were written")
				it.Assert(c.Implies(bitOf(c, bm, i), bitOf(c, post, i)), "resume metadata never forgets a chunk")
			}
			// accounting: remaining + marked stays total
			rem2 := it.term(it.field(stateCell, "remaining").v, "remaining")
			pop2 := c.BV(0, 32)
			for i := 0; i < total; i++ {
				pop2 = c.Add(pop2, c.Ite(bitOf(c, post, i), c.BV(1, 32), c.BV(0, 32)))
			}
			it.Assert(c.Eq(c.Add(pop2, rem2), c.BV(uint64(total), 32)), "chunks still missing plus chunks marked equals the chunk count")
		}
		rem2 := it.term(it.field(stateCell, "remaining").v, "remaining")
		okCalls, badCalls := 0, 0
		for _, ok := range rf.doneCalls {
			if ok {
				okCalls++
			} else {
				badCalls++
			}
		}
		it.Assert(c.Bool(okCalls+badCalls <= 1), "a file is finalised at most once")
		if okCalls == 1 {
			it.Cover("reader: file completed")
			it.Assert(c.Eq(rem2, c.BV(0, 32)), "a file is reported complete only when no chunk is missing")
			it.Assert(c.Bool(!failed), "completion is not accompanied by an error")
		}
		if failed {
			it.Cover("reader: error")
			it.Assert(c.Bool(okCalls == 0), "an error never reports the file as complete")
		}
		// a bad frame must be refused loudly
		if len(writes) == 0 && !failed {
			// no write and no error: only legitimate if the stream ended before a full header/frame? no: a
			// short frame is an error too, except a clean end before any byte (not generated here)
			it.Assert(c.False, "a frame that is not written is reported as an error")
		}
		it.Assert(c.Implies(c.Not(accepted), c.Bool(failed)), "a damaged, truncated or out-of-range frame fails the transfer")
		if badCalls == 1 {
			it.Cover("reader: file failed")
		}
		_ = fmt.Sprint
	}
	return j
}

func bitOf(c *Ctx, bm []*Term, i int) *Term {
	return c.Not(c.Eq(c.BAnd(bm[i/8], c.BV(1<<uint(i%8), 8)), c.BV(0, 8)))
}


// stubReadAtDirect replaces the sender's read pool (a global pool of GOMAXPROCS worker goroutines)
// by the read it performs: ctx check, then file.ReadAt(buf, offset).
func stubReadAtDirect(it *Interp, fn *ssa.Function, a []Value) Value {
	c := it.ctxOf(a[0])
	if it.ctxState(c) {
		return TupleV{it.ctx.BV(0, 64), it.loadGlobal("context", "Canceled")}
	}
	return osModel("(*os.File).ReadAt")(it, nil, []Value{a[1], a[3], a[2]})
}
