package main

// encoding/json as an opaque codec; allocation oracle helpers.

import (
	"fmt"
	"go/types"

	"golang.org/x/tools/go/ssa"
)

type jsonRec struct {
	bytes []*Term
	val   Value
	typ   types.Type
}

func (it *Interp) jsonRecs() *[]jsonRec {
	r, _ := it.ghost["json"].(*[]jsonRec)
	if r == nil {
		r = &[]jsonRec{}
		it.ghost["json"] = r
	}
	return r
}

func init() {
	// Marshal: arbitrary bytes of a harness-chosen length (job.JSONLens), remembered with the value.
	intercepts["encoding/json.Marshal"] = func(it *Interp, fn *ssa.Function, a []Value) Value {
		iv := a[0].(*IfaceV)
		lens := it.job.JSONLens
		if len(lens) == 0 {
			lens = []int{2}
		}
		v := it.fresh("jsonlen", SBV(64))
		it.assume(it.ctx.ULT(v, it.ctx.BV(uint64(len(lens)), 64)))
		n := lens[it.concretize(v, len(lens), "json length")]
		it.names["jsonblob"]++
		b := make([]*Term, n)
		for i := range b {
			b[i] = it.ctx.Var(fmt.Sprintf("json%d[%d]", it.names["jsonblob"], i), SBV(8))
		}
		recs := it.jsonRecs()
		*recs = append(*recs, jsonRec{bytes: b, val: iv.V, typ: iv.T})
		return TupleV{it.newByteSlice(b, "json.Marshal"), &IfaceV{}}
	}
	// Unmarshal: the exact bytes of an earlier Marshal give the value back; anything else is an
	// arbitrary outcome: error, or success leaving the destination as it is (zero value).
	intercepts["encoding/json.Unmarshal"] = func(it *Interp, fn *ssa.Function, a []Value) Value {
		data := it.bytesOfSlice(a[0].(*SliceV))
		dst := a[1].(*IfaceV)
		for _, r := range *it.jsonRecs() {
			if len(r.bytes) != len(data) {
				continue
			}
			same := true
			for i := range data {
				if data[i] != r.bytes[i] {
					same = false
					break
				}
			}
			if same {
				if pt, ok := dst.T.(*types.Pointer); ok && types.Identical(pt.Elem(), r.typ) {
					it.store(it.ptr(dst.V), r.val)
					return &IfaceV{}
				}
			}
		}
		if it.branch(it.fresh("json_ok", SBool), "json.Unmarshal") {
			if it.job.OnJSONUnmarshal != nil {
				it.job.OnJSONUnmarshal(it, dst)
			}
			return &IfaceV{}
		}
		return &IfaceV{T: symErrT, V: &SymErr{msg: it.constString("json: syntax error"), format: "json"}}
	}
	harnessAPI["vAllocMark"] = func(it *Interp, fn *ssa.Function, a []Value) Value { return it.ctx.BV(0, 64) }
	harnessAPI["vAllocSince"] = func(it *Interp, fn *ssa.Function, a []Value) Value { return it.ctx.BV(0, 64) }
}

// allocOracle is evaluated at every make() whose size depends on symbolic input.
func (it *Interp) allocOracle(ev AllocEvent) {
	if it.job.AllocLimit == 0 {
		return
	}
	over := it.ctx.ULT(it.ctx.BV(it.job.AllocLimit, 64), ev.Bytes)
	// also the count itself beyond 2^40 (multiplication wrap)
	over = it.ctx.Or(over, it.ctx.ULT(it.ctx.BV(1<<40, 64), ev.Count))
	it.job.noteAssert("alloc@" + it.fnName())
	r, m := it.sat(over)
	switch r {
	case "sat":
		it.violations = append(it.violations, Violation{Msg: "allocation sized by input exceeds the proportionality bound", Site: it.fnName(), Model: m, Kind: "alloc", Decisions: append([]int{}, it.taken...)})
	case "unsat":
		it.job.noteDischarged(it, it.ctx.Not(over), "allocation bounded at "+it.fnName())
	default:
		it.job.noteUnknown("alloc@" + it.fnName())
	}
}

// hash/crc32 digest objects (crc32.NewIEEE / crc32.New): running CRC as an engine object.
type crcDigest struct {
	poly uint64
	cur  *Term
}

var crcDigestT types.Type = types.NewNamed(types.NewTypeName(0, nil, "symgo.crcDigest", nil), types.NewStruct(nil, nil), nil)

func init() {
	intercepts["hash/crc32.NewIEEE"] = func(it *Interp, fn *ssa.Function, a []Value) Value {
		return &IfaceV{T: crcDigestT, V: &crcDigest{poly: 0xedb88320, cur: it.ctx.BV(0, 32)}}
	}
	intercepts["hash/crc32.New"] = func(it *Interp, fn *ssa.Function, a []Value) Value {
		return &IfaceV{T: crcDigestT, V: &crcDigest{poly: it.crcPoly(a[0]), cur: it.ctx.BV(0, 32)}}
	}
}

func (it *Interp) crcDigestMethod(d *crcDigest, name string) Value {
	switch name {
	case "Write":
		return &EngineFunc{"Write", func(it *Interp, a []Value) Value {
			s := a[0].(*SliceV)
			d.cur = it.crc(d.poly, d.cur, s).(*Term)
			return TupleV{it.ctx.BV(uint64(s.ln), 64), &IfaceV{}}
		}}
	case "Sum32":
		return &EngineFunc{"Sum32", func(it *Interp, a []Value) Value { return d.cur }}
	case "Reset":
		return &EngineFunc{"Reset", func(it *Interp, a []Value) Value { d.cur = it.ctx.BV(0, 32); return nil }}
	}
	return nil
}

// crypto/hmac + sha256 as an uninterpreted, injective function H(key, msg) -> 256 bits (4 x 64-bit words).
type hmacObj struct {
	key  []*Term
	data []*Term
}

type hmacApp struct {
	key, data []*Term
	out       [4]*Term
}

var hmacT types.Type = types.NewNamed(types.NewTypeName(0, nil, "symgo.hmac", nil), types.NewStruct(nil, nil), nil)

func init() {
	intercepts["crypto/hmac.New"] = func(it *Interp, fn *ssa.Function, a []Value) Value {
		return &IfaceV{T: hmacT, V: &hmacObj{key: it.bytesOfSlice(a[1].(*SliceV))}}
	}
	intercepts["crypto/hmac.Equal"] = func(it *Interp, fn *ssa.Function, a []Value) Value {
		return it.strEq(&StrV{it.bytesOfSlice(a[0].(*SliceV))}, &StrV{it.bytesOfSlice(a[1].(*SliceV))})
	}
}

func (it *Interp) hmacApply(key, data []*Term) []*Term {
	apps, _ := it.ghost["hmacApps"].(*[]hmacApp)
	if apps == nil {
		apps = &[]hmacApp{}
		it.ghost["hmacApps"] = apps
	}
	c := it.ctx
	args := append(append([]*Term{}, key...), data...)
	var app hmacApp
	app.key, app.data = key, data
	for w := 0; w < 4; w++ {
		app.out[w] = c.UF(fmt.Sprintf("hmacsha256_w%d_k%d_m%d", w, len(key), len(data)), SBV(64), args...)
	}
	// injectivity, instantiated against every earlier application on this path
	for _, o := range *apps {
		same := c.True
		if len(o.key) != len(key) || len(o.data) != len(data) {
			same = c.False
		} else {
			var eqs []*Term
			for i := range key {
				eqs = append(eqs, c.Eq(key[i], o.key[i]))
			}
			for i := range data {
				eqs = append(eqs, c.Eq(data[i], o.data[i]))
			}
			same = c.And(eqs...)
		}
		outEq := c.And(c.Eq(app.out[0], o.out[0]), c.Eq(app.out[1], o.out[1]), c.Eq(app.out[2], o.out[2]), c.Eq(app.out[3], o.out[3]))
		it.assume(c.Or(same, c.Not(outEq)))
	}
	*apps = append(*apps, app)
	out := make([]*Term, 32)
	for i := 0; i < 32; i++ {
		w := app.out[i/8]
		k := 7 - i%8
		out[i] = c.Extract(w, k*8+7, k*8)
	}
	return out
}

func (it *Interp) hmacMethod(h *hmacObj, name string) Value {
	switch name {
	case "Write":
		return &EngineFunc{"Write", func(it *Interp, a []Value) Value {
			s := a[0].(*SliceV)
			h.data = append(h.data, it.bytesOfSlice(s)...)
			return TupleV{it.ctx.BV(uint64(s.ln), 64), &IfaceV{}}
		}}
	case "Sum":
		return &EngineFunc{"Sum", func(it *Interp, a []Value) Value {
			var prefix []*Term
			if s, ok := a[0].(*SliceV); ok && s != nil && s.ln > 0 {
				prefix = it.bytesOfSlice(s)
			}
			return it.newByteSlice(append(prefix, it.hmacApply(h.key, h.data)...), "hmac.Sum")
		}}
	case "Reset":
		return &EngineFunc{"Reset", func(it *Interp, a []Value) Value { h.data = nil; return nil }}
	case "Size":
		return &EngineFunc{"Size", func(it *Interp, a []Value) Value { return it.ctx.BV(32, 64) }}
	}
	return nil
}
