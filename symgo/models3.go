package main

// encoding/json as an opaque codec; allocation oracle helpers.

import (
	"fmt"
	"go/types"

	"golang.org/x/tools/go/ssa"
)

type jsonRec struct {
	bytes []*Term
	val   Value
	typ   types.Type
}

func (it *Interp) jsonRecs() *[]jsonRec {
	r, _ := it.ghost["json"].(*[]jsonRec)
	if r == nil {
		r = &[]jsonRec{}
		it.ghost["json"] = r
	}
	return r
}

func init() {
	// Marshal: arbitrary bytes of a harness-chosen length (job.JSONLens), remembered with the value.
	intercepts["encoding/json.Marshal"] = func(it *Interp, fn *ssa.Function, a []Value) Value {
		iv := a[0].(*IfaceV)
		lens := it.job.JSONLens
		if len(lens) == 0 {
			lens = []int{2}
		}
		v := it.fresh("jsonlen", SBV(64))
		it.assume(it.ctx.ULT(v, it.ctx.BV(uint64(len(lens)), 64)))
		n := lens[it.concretize(v, len(lens), "json length")]
		it.names["jsonblob"]++
		b := make([]*Term, n)
		for i := range b {
			b[i] = it.ctx.Var(fmt.Sprintf("json%d[%d]", it.names["jsonblob"], i), SBV(8))
		}
		recs := it.jsonRecs()
		*recs = append(*recs, jsonRec{bytes: b, val: iv.V, typ: iv.T})
		return TupleV{it.newByteSlice(b, "json.Marshal"), &IfaceV{}}
	}
	// Unmarshal: the exact bytes of an earlier Marshal give the value back; anything else is an
	// arbitrary outcome: error, or success leaving the destination as it is (zero value).
	intercepts["encoding/json.Unmarshal"] = func(it *Interp, fn *ssa.Function, a []Value) Value {
		data := it.bytesOfSlice(a[0].(*SliceV))
		dst := a[1].(*IfaceV)
		for _, r := range *it.jsonRecs() {
			if len(r.bytes) != len(data) {
				continue
			}
			same := true
			for i := range data {
				if data[i] != r.bytes[i] {
					same = false
					break
				}
			}
			if same {
				if pt, ok := dst.T.(*types.Pointer); ok && types.Identical(pt.Elem(), r.typ) {
					it.store(it.ptr(dst.V), r.val)
					return &IfaceV{}
				}
			}
		}
		if it.branch(it.fresh("json_ok", SBool), "json.Unmarshal") {
			if it.job.OnJSONUnmarshal != nil {
				it.job.OnJSONUnmarshal(it, dst)
			}
			return &IfaceV{}
		}
		return &IfaceV{T: symErrT, V: &SymErr{msg: it.constString("json: syntax error"), format: "json"}}
	}
	harnessAPI["vAllocMark"] = func(it *Interp, fn *ssa.Function, a []Value) Value { return it.ctx.BV(0, 64) }
	harnessAPI["vAllocSince"] = func(it *Interp, fn *ssa.Function, a []Value) Value { return it.ctx.BV(0, 64) }
}

// allocOracle is evaluated at every make() whose size depends on symbolic input.
func (it *Interp) allocOracle(ev AllocEvent) {
	if it.job.AllocLimit == 0 {
		return
	}
	over := it.ctx.ULT(it.ctx.BV(it.job.AllocLimit, 64), ev.Bytes)
	// also the count itself beyond 2^40 (multiplication wrap)
	over = it.ctx.Or(over, it.ctx.ULT(it.ctx.BV(1<<40, 64), ev.Count))
	it.job.noteAssert("alloc@" + it.fnName())
	r, m := it.sat(over)
	switch r {
	case "sat":
		it.violations = append(it.violations, Violation{Msg: "allocation sized by input exceeds the proportionality bound", Site: it.fnName(), Model: m, Kind: "alloc", Decisions: append([]int{}, it.taken...)})
	case "unsat":
		it.job.noteDischarged(it, it.ctx.Not(over), "allocation bounded at "+it.fnName())
	default:
		it.job.noteUnknown("alloc@" + it.fnName())
	}
}

// hash/crc32 digest objects (crc32.NewIEEE / crc32.New): running CRC as an engine object.
type crcDigest struct {
	poly uint64
	cur  *Term
}

var crcDigestT types.Type = types.NewNamed(types.NewTypeName(0, nil, "symgo.crcDigest", nil), types.NewStruct(nil, nil), nil)

func init() {
	intercepts["hash/crc32.NewIEEE"] = func(it *Interp, fn *ssa.Function, a []Value) Value {
		return &IfaceV{T: crcDigestT, V: &crcDigest{poly: 0xedb88320, cur: it.ctx.BV(0, 32)}}
	}
	intercepts["hash/crc32.New"] = func(it *Interp, fn *ssa.Function, a []Value) Value {
		return &IfaceV{T: crcDigestT, V: &crcDigest{poly: it.crcPoly(a[0]), cur: it.ctx.BV(0, 32)}}
	}
}

func (it *Interp) crcDigestMethod(d *crcDigest, name string) Value {
	switch name {
	case "Write":
		return &EngineFunc{"Write", func(it *Interp, a []Value) Value {
			s := a[0].(*SliceV)
			d.cur = it.crc(d.poly, d.cur, s).(*Term)
			return TupleV{it.ctx.BV(uint64(s.ln), 64), &IfaceV{}}
		}}
	case "Sum32":
		return &EngineFunc{"Sum32", func(it *Interp, a []Value) Value { return d.cur }}
	case "Reset":
		return &EngineFunc{"Reset", func(it *Interp, a []Value) Value { d.cur = it.ctx.BV(0, 32); return nil }}
	}
	return nil
}
