package main

import (
	"fmt"
	"go/types"
	"strings"

	"golang.org/x/tools/go/ssa"
)

// Value is one of: *Term, *Ptr, *SliceV, *StrV, *StructV, *ArrayV, *IfaceV, *MapObj, *ChanObj,
// *Closure, *ssa.Function, *ssa.Builtin, TupleV, *IterV, Unknown.
type Value interface{}

type Unknown struct{ Why string }

// Cell is an addressable location: a leaf holding a Value, or an aggregate of sub-cells.
type Cell struct {
	v     Value
	kids  []*Cell
	typ   types.Type
	label string // debugging / effect attribution
	obj   *Object
}

// Object groups the cells of one allocation (for pointer identity / provenance).
type Object struct {
	id    int
	label string
	heap  bool
}

type Ptr struct {
	c *Cell // nil => nil pointer
	// symbolic element pointer: base array cell + symbolic index (c == nil then)
	base *Cell
	idx  *Term
	elem types.Type
	fn   *ssa.Function // pointer to a function value is not supported; unused
	sref *SliceV       // unsafe.SliceData provenance
	strRef *StrV       // unsafe.StringData provenance
}

func (p *Ptr) IsNil() bool { return p.c == nil && p.base == nil }

type SliceV struct {
	arr      *Cell // array cell (kids = elements); nil for nil slice
	off, ln  int
	cp       int
	elem     types.Type
}

type StrV struct{ b []*Term }

type StructV struct {
	typ    types.Type
	fields []Value
}

type ArrayV struct {
	typ   types.Type
	elems []Value
}

type IfaceV struct {
	T types.Type // dynamic type; nil => nil interface
	V Value
}

type MapEntry struct {
	k, v    Value
	deleted bool
}

type MapObj struct {
	typ     *types.Map
	entries []*MapEntry
	id      int
}

type ChanObj struct {
	buf    []Value
	cp     int
	closed bool
	elem   types.Type
	id     int
	label  string
	sendq       []*sendItem
	recvWaiting int
	// timer/ctx channels: readiness decided by a symbolic choice
	maybeReady bool
	readyVal   Value
}

type Closure struct {
	fn   *ssa.Function
	bind []Value
}

type TupleV []Value

type IterV struct {
	kind string // "map" | "string"
	m    *MapObj
	s    *StrV
	pos  int
	snap []*MapEntry
}

// BoundMethod: method value / interface method closure
type BoundMethod struct {
	recv Value
	fn   *ssa.Function
}

func isInt(t types.Type) (w int, signed bool, ok bool) {
	b, isb := t.Underlying().(*types.Basic)
	if !isb {
		return
	}
	switch b.Kind() {
	case types.Int8:
		return 8, true, true
	case types.Int16:
		return 16, true, true
	case types.Int32:
		return 32, true, true
	case types.Int64, types.Int:
		return 64, true, true
	case types.Uint8:
		return 8, false, true
	case types.Uint16:
		return 16, false, true
	case types.Uint32:
		return 32, false, true
	case types.Uint64, types.Uint, types.Uintptr:
		return 64, false, true
	case types.UntypedInt:
		return 64, true, true
	case types.UntypedRune:
		return 32, true, true
	}
	return
}

func isFloat(t types.Type) bool {
	b, ok := t.Underlying().(*types.Basic)
	return ok && (b.Kind() == types.Float64 || b.Kind() == types.Float32 || b.Kind() == types.UntypedFloat)
}
func isBool(t types.Type) bool {
	b, ok := t.Underlying().(*types.Basic)
	return ok && (b.Kind() == types.Bool || b.Kind() == types.UntypedBool)
}
func isString(t types.Type) bool {
	b, ok := t.Underlying().(*types.Basic)
	return ok && (b.Kind() == types.String || b.Kind() == types.UntypedString)
}

func (it *Interp) zero(t types.Type) Value {
	switch u := t.Underlying().(type) {
	case *types.Basic:
		if w, _, ok := isInt(t); ok {
			return it.ctx.BV(0, w)
		}
		if isBool(t) {
			return it.ctx.False
		}
		if isString(t) {
			return &StrV{}
		}
		if isFloat(t) {
			return it.ctx.FPConst(0)
		}
		if u.Kind() == types.UnsafePointer {
			return &Ptr{}
		}
		if u.Kind() == types.UntypedNil {
			return &IfaceV{}
		}
		return Unknown{"zero of " + t.String()}
	case *types.Pointer:
		return &Ptr{}
	case *types.Slice:
		return &SliceV{elem: u.Elem()}
	case *types.Map:
		return (*MapObj)(nil)
	case *types.Chan:
		return (*ChanObj)(nil)
	case *types.Interface:
		return &IfaceV{}
	case *types.Signature:
		return (*Closure)(nil)
	case *types.Struct:
		sv := &StructV{typ: t, fields: make([]Value, u.NumFields())}
		for i := range sv.fields {
			sv.fields[i] = it.zero(u.Field(i).Type())
		}
		return sv
	case *types.Array:
		av := &ArrayV{typ: t, elems: make([]Value, int(u.Len()))}
		for i := range av.elems {
			av.elems[i] = it.zero(u.Elem())
		}
		return av
	case *types.Tuple:
		tv := make(TupleV, u.Len())
		for i := range tv {
			tv[i] = it.zero(u.At(i).Type())
		}
		return tv
	}
	return Unknown{"zero of " + t.String()}
}

func (it *Interp) newObject(label string) *Object {
	it.objSeq++
	return &Object{id: it.objSeq, label: label}
}

func (it *Interp) newCell(t types.Type, obj *Object) *Cell {
	c := &Cell{typ: t, obj: obj}
	switch u := t.Underlying().(type) {
	case *types.Struct:
		c.kids = make([]*Cell, u.NumFields())
		for i := range c.kids {
			c.kids[i] = it.newCell(u.Field(i).Type(), obj)
		}
	case *types.Array:
		n := int(u.Len())
		if n > 1<<20 {
			it.inconclusive(fmt.Sprintf("array of %d elements", n))
		}
		c.kids = make([]*Cell, n)
		for i := range c.kids {
			c.kids[i] = it.newCell(u.Elem(), obj)
		}
	default:
		c.v = it.zero(t)
	}
	return c
}

// newArrayCell creates an array cell of n elements of type elem.
func (it *Interp) newArrayCell(elem types.Type, n int, label string) *Cell {
	obj := it.newObject(label)
	c := &Cell{typ: types.NewArray(elem, int64(n)), obj: obj}
	c.kids = make([]*Cell, n)
	// fast path for scalar element types: share the zero value
	switch elem.Underlying().(type) {
	case *types.Struct, *types.Array:
		for i := range c.kids {
			c.kids[i] = it.newCell(elem, obj)
		}
	default:
		z := it.zero(elem)
		for i := range c.kids {
			c.kids[i] = &Cell{typ: elem, obj: obj, v: z}
		}
	}
	return c
}

func isAgg(c *Cell) bool {
	switch c.typ.Underlying().(type) {
	case *types.Struct, *types.Array:
		return true
	}
	return false
}

func (it *Interp) loadCell(c *Cell) Value {
	switch c.typ.Underlying().(type) {
	case *types.Struct:
		sv := &StructV{typ: c.typ, fields: make([]Value, len(c.kids))}
		for i, k := range c.kids {
			sv.fields[i] = it.loadCell(k)
		}
		return sv
	case *types.Array:
		av := &ArrayV{typ: c.typ, elems: make([]Value, len(c.kids))}
		for i, k := range c.kids {
			av.elems[i] = it.loadCell(k)
		}
		return av
	}
	return c.v
}

func (it *Interp) storeCell(c *Cell, v Value) {
	switch c.typ.Underlying().(type) {
	case *types.Struct:
		sv, ok := v.(*StructV)
		if !ok {
			it.inconclusive(fmt.Sprintf("store of %T into struct cell", v))
		}
		for i, k := range c.kids {
			it.storeCell(k, sv.fields[i])
		}
		return
	case *types.Array:
		av, ok := v.(*ArrayV)
		if !ok {
			it.inconclusive(fmt.Sprintf("store of %T into array cell", v))
		}
		for i, k := range c.kids {
			it.storeCell(k, av.elems[i])
		}
		return
	}
	c.v = v
}

func (it *Interp) constString(s string) *StrV {
	b := make([]*Term, len(s))
	for i := 0; i < len(s); i++ {
		b[i] = it.ctx.BV(uint64(s[i]), 8)
	}
	return &StrV{b}
}

// concreteString returns the Go string if all bytes are constants.
func (s *StrV) concrete() (string, bool) {
	var sb strings.Builder
	for _, t := range s.b {
		if !t.IsConst() {
			return "", false
		}
		sb.WriteByte(byte(t.V))
	}
	return sb.String(), true
}

func (s *StrV) String() string {
	if c, ok := s.concrete(); ok {
		return fmt.Sprintf("%q", c)
	}
	return fmt.Sprintf("str[%d]", len(s.b))
}

// sliceElems returns the element cells of a slice.
func (s *SliceV) cells() []*Cell {
	if s.arr == nil {
		return nil
	}
	return s.arr.kids[s.off : s.off+s.ln]
}

func (it *Interp) bytesOfSlice(s *SliceV) []*Term {
	out := make([]*Term, s.ln)
	for i, c := range s.cells() {
		t, ok := c.v.(*Term)
		if !ok {
			it.inconclusive("non-scalar byte slice element")
		}
		out[i] = t
	}
	return out
}

func (it *Interp) newByteSlice(b []*Term, label string) *SliceV {
	arr := it.newArrayCell(types.Typ[types.Uint8], len(b), label)
	for i, t := range b {
		arr.kids[i].v = t
	}
	return &SliceV{arr: arr, off: 0, ln: len(b), cp: len(b), elem: types.Typ[types.Uint8]}
}

func typeName(t types.Type) string {
	return types.TypeString(t, func(p *types.Package) string { return p.Path() })
}

// describe a value briefly for samples
func describe(v Value) string {
	switch x := v.(type) {
	case nil:
		return "nil"
	case *Term:
		return x.String()
	case *StrV:
		return x.String()
	case *Ptr:
		if x.IsNil() {
			return "nilptr"
		}
		return "ptr"
	case *SliceV:
		return fmt.Sprintf("slice[%d]", x.ln)
	case *StructV:
		var parts []string
		for _, f := range x.fields {
			parts = append(parts, describe(f))
		}
		return "{" + strings.Join(parts, ",") + "}"
	case *IfaceV:
		if x.T == nil {
			return "nil-iface"
		}
		return "iface(" + typeName(x.T) + ")"
	case TupleV:
		var parts []string
		for _, f := range x {
			parts = append(parts, describe(f))
		}
		return "(" + strings.Join(parts, ",") + ")"
	}
	return fmt.Sprintf("%T", v)
}
