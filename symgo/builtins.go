package main

// Intercepted calls: standard-library models (each is part of the trusted base), leaf models for
// assembly routines, and the harness API (v* functions defined in zz_verif overlay files).

import (
	"fmt"
	"go/types"
	"hash/crc32"
	"os"
	"strings"

	"golang.org/x/tools/go/ssa"
)

type interceptFn func(it *Interp, fn *ssa.Function, args []Value) Value

var intercepts map[string]interceptFn
var leafModels map[string]interceptFn
var harnessAPI map[string]interceptFn

var symErrT types.Type = types.NewNamed(types.NewTypeName(0, nil, "symgo.fmtError", nil), types.NewStruct(nil, nil), nil)
var errorIface *types.Interface

type SymErr struct {
	msg     *StrV
	wrapped []Value // %w operands
	format  string
}

func init() {
	errorIface = types.Universe.Lookup("error").Type().Underlying().(*types.Interface)
	intercepts = map[string]interceptFn{
		"fmt.Errorf":  mFmtErrorf,
		"fmt.Sprintf": mFmtSprintf,
		"fmt.Sprint":  func(it *Interp, fn *ssa.Function, a []Value) Value { return it.sprint(a[0].(*SliceV), "") },
		"fmt.Sprintln": func(it *Interp, fn *ssa.Function, a []Value) Value {
			return it.sprint(a[0].(*SliceV), "\n")
		},
		"fmt.Fprintf":  func(it *Interp, fn *ssa.Function, a []Value) Value { return TupleV{it.ctx.BV(0, 64), &IfaceV{}} },
		"fmt.Fprintln": func(it *Interp, fn *ssa.Function, a []Value) Value { return TupleV{it.ctx.BV(0, 64), &IfaceV{}} },
		"fmt.Fprint":   func(it *Interp, fn *ssa.Function, a []Value) Value { return TupleV{it.ctx.BV(0, 64), &IfaceV{}} },
		"fmt.Printf":   func(it *Interp, fn *ssa.Function, a []Value) Value { return TupleV{it.ctx.BV(0, 64), &IfaceV{}} },
		"fmt.Println":  func(it *Interp, fn *ssa.Function, a []Value) Value { return TupleV{it.ctx.BV(0, 64), &IfaceV{}} },
		"errors.Is":    mErrorsIs,
		"errors.Unwrap": func(it *Interp, fn *ssa.Function, a []Value) Value {
			return it.unwrapErr(a[0].(*IfaceV))
		},
		"encoding/binary.Read":  mBinaryRead,
		"encoding/binary.Write": mBinaryWrite,
		"hash/crc32.MakeTable":  mCrcMakeTable,
		"hash/crc32.Checksum":   mCrcChecksum,
		"hash/crc32.Update":     mCrcUpdate,
		"hash/crc32.ChecksumIEEE": func(it *Interp, fn *ssa.Function, a []Value) Value {
			return it.crc(uint64(crc32.IEEE), it.ctx.BV(0, 32), a[0].(*SliceV))
		},
		"internal/abi.NoEscape":   func(it *Interp, fn *ssa.Function, a []Value) Value { return a[0] },
		"internal/abi.Escape":     func(it *Interp, fn *ssa.Function, a []Value) Value { return a[0] },
		"strings.Contains":        mStringsContains,
		"strings.Index":           mStringsIndex,
		"strings.IndexByte":       mStringsIndexByte,
		"strings.LastIndex":       mStringsLastIndex,
		"strings.LastIndexByte":   mStringsLastIndexByte,
		"strings.HasPrefix":       mStringsHasPrefix,
		"strings.HasSuffix":       mStringsHasSuffix,
		"strings.EqualFold":       nil,
		"bytes.Equal":             mBytesEqual,
		"bytes.IndexByte":         mBytesIndexByte,
		"math.Sqrt":               func(it *Interp, fn *ssa.Function, a []Value) Value { return it.ctx.fp1(OFPSqrt, it.term(a[0], "x")) },
		"math.Floor":              func(it *Interp, fn *ssa.Function, a []Value) Value { return it.ctx.fp1(OFPFloor, it.term(a[0], "x")) },
		"math.Abs": func(it *Interp, fn *ssa.Function, a []Value) Value {
			c := it.ctx
			x := it.term(a[0], "x")
			return c.Ite(c.fpcmp(OFPLT, x, c.FPConst(0)), c.fp1(OFPNeg, x), x)
		},
		"runtime.GOMAXPROCS":      func(it *Interp, fn *ssa.Function, a []Value) Value { return it.ctx.BV(16, 64) },
		"runtime.NumCPU":          func(it *Interp, fn *ssa.Function, a []Value) Value { return it.ctx.BV(16, 64) },
		"runtime.Gosched":         func(it *Interp, fn *ssa.Function, a []Value) Value { return nil },
		"runtime.KeepAlive":       func(it *Interp, fn *ssa.Function, a []Value) Value { return nil },
		"runtime.SetFinalizer":    func(it *Interp, fn *ssa.Function, a []Value) Value { return nil },
		"(*sync.Mutex).Lock":      mMutexLock,
		"(*sync.Mutex).Unlock":    mMutexUnlock,
		"(*sync.Mutex).TryLock":   mMutexTryLock,
		"(*sync.RWMutex).Lock":    mMutexLock,
		"(*sync.RWMutex).Unlock":  mMutexUnlock,
		"(*sync.RWMutex).RLock":   mRLock,
		"(*sync.RWMutex).RUnlock": mRUnlock,
		"(*sync.Once).Do":         mOnceDo,
		"(*sync.WaitGroup).Add":   mWGAdd,
		"(*sync.WaitGroup).Done":  func(it *Interp, fn *ssa.Function, a []Value) Value { return it.wgAdd(a[0], -1) },
		"(*sync.WaitGroup).Wait":  mWGWait,
		"os.Exit": func(it *Interp, fn *ssa.Function, a []Value) Value {
			panic(pathEnd{"exit", fmt.Sprintf("os.Exit(%s)", describe(a[0]))})
		},
		"crypto/rand.Read": func(it *Interp, fn *ssa.Function, a []Value) Value {
			s := a[0].(*SliceV)
			for _, c := range s.cells() {
				c.v = it.fresh("rand", SBV(8))
			}
			return TupleV{it.ctx.BV(uint64(s.ln), 64), &IfaceV{}}
		},
	}
	delete(intercepts, "strings.EqualFold")
	leafModels = map[string]interceptFn{
		"internal/bytealg.IndexByteString": func(it *Interp, fn *ssa.Function, a []Value) Value {
			return it.indexByte(a[0].(*StrV).b, it.term(a[1], "byte"), false)
		},
		"internal/bytealg.IndexByte": func(it *Interp, fn *ssa.Function, a []Value) Value {
			return it.indexByte(it.bytesOfSlice(a[0].(*SliceV)), it.term(a[1], "byte"), false)
		},
		"internal/bytealg.CountString": func(it *Interp, fn *ssa.Function, a []Value) Value {
			return it.countByte(a[0].(*StrV).b, it.term(a[1], "byte"))
		},
		"internal/bytealg.Count": func(it *Interp, fn *ssa.Function, a []Value) Value {
			return it.countByte(it.bytesOfSlice(a[0].(*SliceV)), it.term(a[1], "byte"))
		},
		"internal/bytealg.IndexString": func(it *Interp, fn *ssa.Function, a []Value) Value {
			return it.indexString(a[0].(*StrV).b, a[1].(*StrV).b)
		},
		"internal/bytealg.Equal": func(it *Interp, fn *ssa.Function, a []Value) Value {
			return it.strEq(&StrV{it.bytesOfSlice(a[0].(*SliceV))}, &StrV{it.bytesOfSlice(a[1].(*SliceV))})
		},
		"internal/bytealg.MakeNoZero": func(it *Interp, fn *ssa.Function, a []Value) Value {
			n := it.term(a[0], "len")
			if !n.IsConst() {
				it.inconclusive("MakeNoZero with symbolic length")
			}
			b := make([]*Term, n.V)
			for i := range b {
				b[i] = it.ctx.BV(0, 8)
			}
			return it.newByteSlice(b, "MakeNoZero")
		},
		"internal/bytealg.Compare": func(it *Interp, fn *ssa.Function, a []Value) Value {
			x := &StrV{it.bytesOfSlice(a[0].(*SliceV))}
			y := &StrV{it.bytesOfSlice(a[1].(*SliceV))}
			c := it.ctx
			return c.Ite(it.strEq(x, y), c.BV(0, 64), c.Ite(it.strLess(x, y, false), c.BV(^uint64(0), 64), c.BV(1, 64)))
		},
		"internal/stringslite.Index": nil,
		"math.archFloor": func(it *Interp, fn *ssa.Function, a []Value) Value { return it.ctx.fp1(OFPFloor, it.term(a[0], "x")) },
		"math.archSqrt":  func(it *Interp, fn *ssa.Function, a []Value) Value { return it.ctx.fp1(OFPSqrt, it.term(a[0], "x")) },
		"math.archCeil": func(it *Interp, fn *ssa.Function, a []Value) Value {
			c := it.ctx
			return c.fp1(OFPNeg, c.fp1(OFPFloor, c.fp1(OFPNeg, it.term(a[0], "x"))))
		},
	}
	delete(leafModels, "internal/stringslite.Index")
	harnessAPI = map[string]interceptFn{
		"vU8":     func(it *Interp, fn *ssa.Function, a []Value) Value { return it.input(a[0], "u8", 8) },
		"vU16":    func(it *Interp, fn *ssa.Function, a []Value) Value { return it.input(a[0], "u16", 16) },
		"vU32":    func(it *Interp, fn *ssa.Function, a []Value) Value { return it.input(a[0], "u32", 32) },
		"vU64":    func(it *Interp, fn *ssa.Function, a []Value) Value { return it.input(a[0], "u64", 64) },
		"vI64":    func(it *Interp, fn *ssa.Function, a []Value) Value { return it.input(a[0], "i64", 64) },
		"vI32":    func(it *Interp, fn *ssa.Function, a []Value) Value { return it.input(a[0], "i32", 32) },
		"vInt":    func(it *Interp, fn *ssa.Function, a []Value) Value { return it.input(a[0], "int", 64) },
		"vBool":   func(it *Interp, fn *ssa.Function, a []Value) Value { return it.input(a[0], "bool", 0) },
		"vF64":    func(it *Interp, fn *ssa.Function, a []Value) Value { return it.input(a[0], "f64", -1) },
		"vBytes":  hBytes,
		"vString": hString,
		"vChoice": hChoice,
		"vAssume": func(it *Interp, fn *ssa.Function, a []Value) Value {
			c := it.term(a[0], "vAssume")
			if c.IsFalse() {
				panic(pathEnd{"assume-false", "vAssume(false)"})
			}
			if !c.IsTrue() {
				r, m := it.sat(c)
				if r == "unsat" {
					panic(pathEnd{"assume-false", "vAssume infeasible at " + it.site()})
				}
				if r == "sat" {
					it.model = m
				} else {
					it.model = nil
					it.notes = append(it.notes, "vAssume feasibility unknown at "+it.site())
				}
				it.assume(c)
			}
			return nil
		},
		"vAssert": hAssert,
		"vCover": func(it *Interp, fn *ssa.Function, a []Value) Value {
			s, _ := a[0].(*StrV).concrete()
			it.covers[s] = true
			return nil
		},
		"vStop": func(it *Interp, fn *ssa.Function, a []Value) Value { panic(pathEnd{"stop", "vStop"}) },
		"vTag": func(it *Interp, fn *ssa.Function, a []Value) Value {
			s, _ := a[0].(*StrV).concrete()
			for _, t := range it.tags {
				if t == s {
					return nil
				}
			}
			it.tags = append(it.tags, s)
			return nil
		},
		"vRepeat":      func(it *Interp, fn *ssa.Function, a []Value) Value { return it.ctx.BV(1, 64) },
		"vResetInputs": func(it *Interp, fn *ssa.Function, a []Value) Value { return nil },
		"vSymbolic": func(it *Interp, fn *ssa.Function, a []Value) Value { return it.ctx.True },
		"vRunPending": func(it *Interp, fn *ssa.Function, a []Value) Value {
			want, _ := a[0].(*StrV).concrete()
			n := 0
			for _, p := range it.pending {
				if !p.done && (want == "" || strings.Contains(p.label, want)) {
					p.done = true
					n++
					it.callValue(p.fnv, p.args, p.call)
				}
			}
			return it.ctx.BV(uint64(n), 64)
		},
		"vRunPendingAt": func(it *Interp, fn *ssa.Function, a []Value) Value {
			want, _ := a[0].(*StrV).concrete()
			k := it.term(a[1], "k")
			if !k.IsConst() {
				it.inconclusive("vRunPendingAt with symbolic index")
			}
			n := 0
			for _, p := range it.pending {
				if want == "" || strings.Contains(p.label, want) {
					if n == int(k.V) {
						if p.done {
							return it.ctx.False
						}
						p.done = true
						it.callValue(p.fnv, p.args, p.call)
						return it.ctx.True
					}
					n++
				}
			}
			return it.ctx.False
		},
		"vPendingCount": func(it *Interp, fn *ssa.Function, a []Value) Value {
			want, _ := a[0].(*StrV).concrete()
			n := 0
			for _, p := range it.pending {
				if !p.done && (want == "" || strings.Contains(p.label, want)) {
					n++
				}
			}
			return it.ctx.BV(uint64(n), 64)
		},
		"vTempFile":   hTempFile,
		"vTempDir":    hTempDir,
		"vFSLog":      hFSLog,
		"vLocked":     hLocked,
		"vIte64":      func(it *Interp, fn *ssa.Function, a []Value) Value { return it.ctx.Ite(it.term(a[0], "c"), it.term(a[1], "a"), it.term(a[2], "b")) },
		"vAnd":        func(it *Interp, fn *ssa.Function, a []Value) Value { return it.ctx.And(it.term(a[0], "a"), it.term(a[1], "b")) },
		"vOr":         func(it *Interp, fn *ssa.Function, a []Value) Value { return it.ctx.Or(it.term(a[0], "a"), it.term(a[1], "b")) },
		"vImplies":    func(it *Interp, fn *ssa.Function, a []Value) Value { return it.ctx.Implies(it.term(a[0], "a"), it.term(a[1], "b")) },
		"vBytesEq":    func(it *Interp, fn *ssa.Function, a []Value) Value {
			return it.strEq(&StrV{it.bytesOfSlice(a[0].(*SliceV))}, &StrV{it.bytesOfSlice(a[1].(*SliceV))})
		},
		"vStrEq": func(it *Interp, fn *ssa.Function, a []Value) Value { return it.strEq(a[0].(*StrV), a[1].(*StrV)) },
		"vPanics": hPanics,
		"vSetNow": func(it *Interp, fn *ssa.Function, a []Value) Value { it.timeNow = it.term(a[0], "now"); return nil },
	}
}

func interceptByPrefix(name string) interceptFn {
	switch {
	case strings.HasPrefix(name, "log/slog.") || strings.HasPrefix(name, "(*log/slog.Logger)."):
		return mZeroResults
	case strings.HasPrefix(name, "log.") || strings.HasPrefix(name, "(*log.Logger)."):
		return mZeroResults
	case strings.HasPrefix(name, "github.com/sheerbytes/sheerbytes/internal/termio."):
		return mZeroResults
	case strings.HasPrefix(name, "os.") || strings.HasPrefix(name, "(*os.File)."):
		return osModel(name)
	case strings.HasPrefix(name, "time.") || strings.HasPrefix(name, "(time.") || strings.HasPrefix(name, "(*time."):
		return timeModel(name)
	case strings.HasPrefix(name, "context.") || strings.HasPrefix(name, "(*context."):
		return ctxModel(name)
	case strings.HasPrefix(name, "sync/atomic."):
		return atomicModel(name)
	case strings.HasPrefix(name, "sort.Slice"):
		return mSortSlice
	case strings.HasPrefix(name, "(*sync.Map).") || strings.HasPrefix(name, "(*sync.Pool)."):
		return syncContainerModel(name)
	}
	return nil
}

func mZeroResults(it *Interp, fn *ssa.Function, a []Value) Value { return it.zeroResults(fn) }

// engineMethod dispatches methods on engine-defined dynamic types.
func (it *Interp) engineMethod(iv *IfaceV, name string) Value {
	if iv.T == symErrT {
		se := iv.V.(*SymErr)
		switch name {
		case "Error":
			return &EngineFunc{"Error", func(it *Interp, a []Value) Value { return se.msg }}
		case "Unwrap":
			return &EngineFunc{"Unwrap", func(it *Interp, a []Value) Value {
				if len(se.wrapped) > 0 {
					return se.wrapped[0]
				}
				return &IfaceV{}
			}}
		}
	}
	if iv.T == runtimeErrT {
		if name == "Error" {
			return &EngineFunc{"Error", func(it *Interp, a []Value) Value { return iv.V }}
		}
	}
	if iv.T == fsErrT {
		if name == "Error" {
			return &EngineFunc{"Error", func(it *Interp, a []Value) Value { return iv.V.(*FSErr).msg }}
		}
	}
	if m := it.engineMethodExtra(iv, name); m != nil {
		return m
	}
	return nil
}

// ---------------------------------------------------------------------------------------
// Inputs

func (it *Interp) inputName(v Value) string {
	s, ok := v.(*StrV).concrete()
	if !ok {
		it.inconclusive("symbolic input name")
	}
	it.names["in:"+s]++
	if n := it.names["in:"+s]; n > 1 {
		return fmt.Sprintf("%s#%d", s, n)
	}
	return s
}

func (it *Interp) input(nv Value, kind string, w int) Value {
	name := it.inputName(nv)
	var t *Term
	switch {
	case w == 0:
		t = it.ctx.Var(name, SBool)
	case w < 0:
		t = it.ctx.Var(name, SFP)
	default:
		t = it.ctx.Var(name, SBV(w))
	}
	it.inputs = append(it.inputs, InputDecl{Name: name, Kind: kind, Terms: []*Term{t}})
	return t
}

func hBytes(it *Interp, fn *ssa.Function, a []Value) Value {
	name := it.inputName(a[0])
	n := it.term(a[1], "vBytes n")
	if !n.IsConst() {
		it.inconclusive("vBytes with symbolic length")
	}
	b := make([]*Term, n.V)
	for i := range b {
		b[i] = it.ctx.Var(fmt.Sprintf("%s[%d]", name, i), SBV(8))
	}
	it.inputs = append(it.inputs, InputDecl{Name: name, Kind: "bytes", N: int(n.V), Terms: b})
	return it.newByteSlice(b, name)
}

func hString(it *Interp, fn *ssa.Function, a []Value) Value {
	name := it.inputName(a[0])
	n := it.term(a[1], "vString n")
	if !n.IsConst() {
		it.inconclusive("vString with symbolic length")
	}
	b := make([]*Term, n.V)
	for i := range b {
		b[i] = it.ctx.Var(fmt.Sprintf("%s[%d]", name, i), SBV(8))
	}
	it.inputs = append(it.inputs, InputDecl{Name: name, Kind: "string", N: int(n.V), Terms: b})
	return &StrV{b}
}

func hChoice(it *Interp, fn *ssa.Function, a []Value) Value {
	name := it.inputName(a[0])
	n := it.term(a[1], "vChoice n")
	if !n.IsConst() || n.V == 0 {
		it.inconclusive("vChoice with symbolic/zero n")
	}
	v := it.ctx.Var(name, SBV(64))
	it.assume(it.ctx.ULT(v, it.ctx.BV(n.V, 64)))
	d := it.concretize(v, int(n.V), "choice "+name)
	it.inputs = append(it.inputs, InputDecl{Name: name, Kind: "choice", Terms: []*Term{v}, Choice: d})
	return it.ctx.BV(uint64(d), 64)
}

func hAssert(it *Interp, fn *ssa.Function, a []Value) Value {
	c := it.term(a[0], "vAssert")
	msg, _ := a[1].(*StrV).concrete()
	it.job.noteAssert(it.site() + " " + msg)
	if c.IsTrue() {
		it.job.noteTrivial()
		return nil
	}
	if d := os.Getenv("SYMGO_DUMP"); d != "" {
		it.names["dump"]++
		os.WriteFile(fmt.Sprintf("%s/q_%s_%d_%d.smt2", d, it.job.ID, len(it.taken), it.names["dump"]), []byte(it.sol.Script(it.ctx.Not(c))), 0o644)
	}
	r, m := it.sat(it.ctx.Not(c))
	switch r {
	case "unsat":
		it.job.noteDischarged(it, c, msg)
	case "sat":
		it.violations = append(it.violations, Violation{Msg: msg, Site: it.site(), Model: m, Kind: "assert", Decisions: append([]int{}, it.taken...)})
		if it.job.StopAtViolation {
			panic(pathEnd{"stop", "violation"})
		}
	default:
		it.job.noteUnknown(it.site() + " " + msg)
	}
	// continue under the asserted condition
	if c.IsFalse() {
		panic(pathEnd{"stop", "assert false"})
	}
	r2, m2 := it.sat(c)
	if r2 == "unsat" {
		panic(pathEnd{"stop", "assertion always fails here"})
	}
	it.model = m2
	it.assume(c)
	return nil
}

// vPanics(f func()) bool : runs f, reports whether it panicked (Go-level panic)
func hPanics(it *Interp, fn *ssa.Function, a []Value) (res Value) {
	defer func() {
		if r := recover(); r != nil {
			if _, ok := r.(*goPanic); ok {
				res = it.ctx.True
				return
			}
			panic(r)
		}
	}()
	it.callValue(a[0], nil, nil)
	return it.ctx.False
}

// ---------------------------------------------------------------------------------------
// fmt

func (it *Interp) formatArgs(format string, args []Value) (*StrV, []Value) {
	var out []*Term
	var wrapped []Value
	ai := 0
	put := func(s string) {
		for i := 0; i < len(s); i++ {
			out = append(out, it.ctx.BV(uint64(s[i]), 8))
		}
	}
	for i := 0; i < len(format); i++ {
		ch := format[i]
		if ch != '%' {
			out = append(out, it.ctx.BV(uint64(ch), 8))
			continue
		}
		j := i + 1
		for j < len(format) && strings.ContainsRune("0123456789.+-# ", rune(format[j])) {
			j++
		}
		if j >= len(format) {
			break
		}
		verb := format[j]
		flags := format[i+1 : j]
		i = j
		if verb == '%' {
			put("%")
			continue
		}
		if ai >= len(args) {
			put("%!" + string(verb) + "(MISSING)")
			continue
		}
		arg := args[ai]
		ai++
		if iv, ok := arg.(*IfaceV); ok {
			if verb == 'w' {
				wrapped = append(wrapped, iv)
			}
			if iv.T == nil {
				put("<nil>")
				continue
			}
			// error / Stringer operands
			if types.Implements(iv.T, errorIface) || iv.T == symErrT || iv.T == runtimeErrT || iv.T == fsErrT {
				if s := it.errString(iv); s != nil {
					out = append(out, s.b...)
					continue
				}
			}
			arg = iv.V
		}
		switch x := arg.(type) {
		case *StrV:
			if verb == 'q' {
				put("\"")
				out = append(out, x.b...)
				put("\"")
			} else {
				out = append(out, x.b...)
			}
		case *Term:
			if x.IsConst() && x.S.K == KBV {
				switch verb {
				case 'x':
					put(fmt.Sprintf("%"+flags+"x", x.V))
				case 'd', 'v':
					put(fmt.Sprintf("%"+flags+"d", x.V))
				default:
					put(fmt.Sprintf("%d", x.V))
				}
			} else if x.IsConst() && x.S.K == KBool {
				put(fmt.Sprintf("%v", x.V == 1))
			} else {
				put("?")
			}
		default:
			put("?")
		}
	}
	return &StrV{out}, wrapped
}

func (it *Interp) variadic(v Value) []Value {
	s, ok := v.(*SliceV)
	if !ok || s == nil {
		return nil
	}
	var out []Value
	for _, c := range s.cells() {
		out = append(out, it.loadCell(c))
	}
	return out
}

func mFmtErrorf(it *Interp, fn *ssa.Function, a []Value) Value {
	format, ok := a[0].(*StrV).concrete()
	if !ok {
		it.inconclusive("fmt.Errorf with symbolic format")
	}
	msg, wrapped := it.formatArgs(format, it.variadic(a[1]))
	return &IfaceV{T: symErrT, V: &SymErr{msg: msg, wrapped: wrapped, format: format}}
}

func mFmtSprintf(it *Interp, fn *ssa.Function, a []Value) Value {
	format, ok := a[0].(*StrV).concrete()
	if !ok {
		it.inconclusive("fmt.Sprintf with symbolic format")
	}
	msg, _ := it.formatArgs(format, it.variadic(a[1]))
	return msg
}

func (it *Interp) sprint(args *SliceV, suffix string) Value {
	vals := it.variadic(args)
	f := strings.Repeat("%v", len(vals)) + suffix
	msg, _ := it.formatArgs(f, vals)
	return msg
}

func (it *Interp) errString(iv *IfaceV) *StrV {
	if iv.T == symErrT {
		return iv.V.(*SymErr).msg
	}
	if iv.T == runtimeErrT {
		return iv.V.(*StrV)
	}
	if iv.T == fsErrT {
		return iv.V.(*FSErr).msg
	}
	m := it.safeLookup(iv.T, nil, "Error")
	if m == nil {
		return nil
	}
	r := it.call(m, []Value{iv.V}, nil)
	s, _ := r.(*StrV)
	return s
}

func (it *Interp) unwrapErr(iv *IfaceV) Value {
	if iv.T == nil {
		return &IfaceV{}
	}
	if iv.T == symErrT {
		se := iv.V.(*SymErr)
		if len(se.wrapped) > 0 {
			return se.wrapped[0]
		}
		return &IfaceV{}
	}
	if iv.T == runtimeErrT || iv.T == fsErrT {
		return &IfaceV{}
	}
	m := it.safeLookup(iv.T, nil, "Unwrap")
	if m == nil {
		return &IfaceV{}
	}
	if m.Signature.Results().Len() != 1 {
		return &IfaceV{}
	}
	r := it.call(m, []Value{iv.V}, nil)
	if riv, ok := r.(*IfaceV); ok {
		return riv
	}
	return &IfaceV{}
}

func mErrorsIs(it *Interp, fn *ssa.Function, a []Value) Value {
	err, _ := a[0].(*IfaceV)
	target, _ := a[1].(*IfaceV)
	if err == nil || target == nil {
		it.inconclusive("errors.Is on non-interface")
	}
	var walk func(e *IfaceV, depth int) *Term
	walk = func(e *IfaceV, depth int) *Term {
		if e.T == nil {
			return it.ctx.Bool(target.T == nil)
		}
		if depth > 20 {
			return it.ctx.False
		}
		if it.sameErr(e, target) {
			return it.ctx.True
		}
		if e.T == symErrT {
			for _, w := range e.V.(*SymErr).wrapped {
				if wi, ok := w.(*IfaceV); ok && wi.T != nil && walk(wi, depth+1).IsTrue() {
					return it.ctx.True
				}
			}
			return it.ctx.False
		}
		if fe, ok := e.V.(*FSErr); ok {
			if fe.kind == "notexist" {
				if ne, ok := it.loadGlobal("io/fs", "ErrNotExist").(*IfaceV); ok && it.sameErr(ne, target) {
					return it.ctx.True
				}
			}
			if fe.kind == "exist" {
				if ne, ok := it.loadGlobal("io/fs", "ErrExist").(*IfaceV); ok && it.sameErr(ne, target) {
					return it.ctx.True
				}
			}
			return it.ctx.False
		}
		next := it.unwrapErr(e).(*IfaceV)
		if next.T == nil {
			return it.ctx.False
		}
		return walk(next, depth+1)
	}
	return walk(err, 0)
}

func (it *Interp) sameErr(a, b *IfaceV) bool {
	if a.T == nil || b.T == nil {
		return a.T == nil && b.T == nil
	}
	if a.T == symErrT || b.T == symErrT {
		return a.V == b.V
	}
	if !types.Identical(a.T, b.T) {
		return false
	}
	pa, ok1 := a.V.(*Ptr)
	pb, ok2 := b.V.(*Ptr)
	if ok1 && ok2 {
		return pa.c == pb.c
	}
	if ok1 != ok2 {
		return false
	}
	eq := it.equal(a.V, b.V)
	return eq.IsTrue()
}

// ---------------------------------------------------------------------------------------
// encoding/binary fast paths (fixed-size integers), mirroring binary.Read/Write's own fast path

func orderIsBig(it *Interp, v Value) bool {
	iv, ok := v.(*IfaceV)
	if !ok || iv.T == nil {
		it.inconclusive("binary byte order unknown")
	}
	n := typeName(iv.T)
	if strings.Contains(n, "bigEndian") {
		return true
	}
	if strings.Contains(n, "littleEndian") {
		return false
	}
	it.inconclusive("binary byte order " + n)
	return true
}

func (it *Interp) callMethod(recv *IfaceV, name string, args ...Value) Value {
	if recv.T == nil {
		it.rtPanic("nil interface method call " + name)
	}
	if h := it.engineMethod(recv, name); h != nil {
		return it.callValue(h, args, nil)
	}
	m := it.safeLookup(recv.T, nil, name)
	if m == nil {
		// unexported methods need the package; search by type's package
		if named, ok := derefNamed(recv.T); ok && named.Obj().Pkg() != nil {
			m = it.safeLookup(recv.T, named.Obj().Pkg(), name)
		}
	}
	if m == nil {
		it.inconclusive("method " + name + " not found on " + typeName(recv.T))
	}
	return it.call(m, append([]Value{recv.V}, args...), nil)
}

func derefNamed(t types.Type) (*types.Named, bool) {
	if p, ok := t.(*types.Pointer); ok {
		t = p.Elem()
	}
	n, ok := t.(*types.Named)
	return n, ok
}

func (it *Interp) findFunc(pkgPath, name string) *ssa.Function {
	for _, p := range it.prog.AllPackages() {
		if p.Pkg.Path() == pkgPath {
			if f := p.Func(name); f != nil {
				return f
			}
		}
	}
	it.inconclusive("function " + pkgPath + "." + name + " not loaded")
	return nil
}

func mBinaryRead(it *Interp, fn *ssa.Function, a []Value) Value {
	r := a[0].(*IfaceV)
	big := orderIsBig(it, a[1])
	data := a[2].(*IfaceV)
	pt, ok := data.T.(*types.Pointer)
	if !ok {
		it.inconclusive("binary.Read into " + typeName(data.T))
	}
	w, _, isI := isInt(pt.Elem())
	isB := isBool(pt.Elem())
	if !isI && !isB {
		it.inconclusive("binary.Read into " + typeName(data.T))
	}
	if isB {
		w = 8
	}
	n := w / 8
	zero := make([]*Term, n)
	for i := range zero {
		zero[i] = it.ctx.BV(0, 8)
	}
	buf := it.newByteSlice(zero, "binary.Read")
	readFull := it.findFunc("io", "ReadFull")
	res := it.call(readFull, []Value{r, buf}, nil).(TupleV)
	errv := res[1].(*IfaceV)
	if errv.T != nil {
		return errv
	}
	bs := it.bytesOfSlice(buf)
	var v *Term
	for i := 0; i < n; i++ {
		var b *Term
		if big {
			b = bs[i]
		} else {
			b = bs[n-1-i]
		}
		if v == nil {
			v = b
		} else {
			v = it.ctx.Concat(v, b)
		}
	}
	if isB {
		it.store(it.ptr(data.V), it.ctx.Not(it.ctx.Eq(v, it.ctx.BV(0, 8))))
	} else {
		it.store(it.ptr(data.V), v)
	}
	return &IfaceV{}
}

func mBinaryWrite(it *Interp, fn *ssa.Function, a []Value) Value {
	w := a[0].(*IfaceV)
	big := orderIsBig(it, a[1])
	data := a[2].(*IfaceV)
	var val Value = data.V
	typ := data.T
	if pt, ok := typ.(*types.Pointer); ok {
		val = it.load(it.ptr(val))
		typ = pt.Elem()
	}
	var bytesOut []*Term
	emit := func(t *Term, wd int) {
		n := wd / 8
		for i := 0; i < n; i++ {
			k := i
			if big {
				k = n - 1 - i
			}
			bytesOut = append(bytesOut, it.ctx.Extract(t, k*8+7, k*8))
		}
	}
	if wd, _, ok := isInt(typ); ok {
		emit(it.term(val, "binary.Write"), wd)
	} else if isBool(typ) {
		bytesOut = append(bytesOut, it.ctx.Ite(it.term(val, "bool"), it.ctx.BV(1, 8), it.ctx.BV(0, 8)))
	} else if sl, ok := typ.Underlying().(*types.Slice); ok {
		wd, _, ok := isInt(sl.Elem())
		if !ok {
			it.inconclusive("binary.Write of " + typeName(typ))
		}
		for _, c := range val.(*SliceV).cells() {
			emit(c.v.(*Term), wd)
		}
	} else {
		it.inconclusive("binary.Write of " + typeName(typ))
	}
	buf := it.newByteSlice(bytesOut, "binary.Write")
	res := it.callMethod(w, "Write", buf).(TupleV)
	return res[1]
}

// ---------------------------------------------------------------------------------------
// CRC-32: real value on concrete data, uninterpreted function (per polynomial and length) otherwise

func mCrcMakeTable(it *Interp, fn *ssa.Function, a []Value) Value {
	poly := it.term(a[0], "poly")
	if !poly.IsConst() {
		it.inconclusive("symbolic crc polynomial")
	}
	c := it.newCell(types.Typ[types.Uint32], it.newObject(fmt.Sprintf("crc32table:%d", poly.V)))
	c.v = it.ctx.BV(poly.V, 32)
	return &Ptr{c: c}
}

func (it *Interp) crcPoly(tab Value) uint64 {
	p, ok := tab.(*Ptr)
	if !ok || p.c == nil || p.c.obj == nil || !strings.HasPrefix(p.c.obj.label, "crc32table:") {
		it.inconclusive("crc32 table of unknown origin")
	}
	return p.c.v.(*Term).V
}

func (it *Interp) crc(poly uint64, init *Term, data *SliceV) Value {
	bs := it.bytesOfSlice(data)
	all := init.IsConst()
	raw := make([]byte, len(bs))
	for i, b := range bs {
		if !b.IsConst() {
			all = false
			break
		}
		raw[i] = byte(b.V)
	}
	if all {
		return it.ctx.BV(uint64(crc32.Update(uint32(init.V), crc32.MakeTable(uint32(poly)), raw)), 32)
	}
	args := append([]*Term{init}, bs...)
	return it.ctx.UF(fmt.Sprintf("crc32_%x_%d", poly, len(bs)), SBV(32), args...)
}

func mCrcChecksum(it *Interp, fn *ssa.Function, a []Value) Value {
	return it.crc(it.crcPoly(a[1]), it.ctx.BV(0, 32), a[0].(*SliceV))
}
func mCrcUpdate(it *Interp, fn *ssa.Function, a []Value) Value {
	return it.crc(it.crcPoly(a[1]), it.term(a[0], "crc"), a[2].(*SliceV))
}

// ---------------------------------------------------------------------------------------
// strings / bytes leaf models

// indexByte returns the first position of c in b or -1; a position is a shape => forks.
func (it *Interp) indexByte(b []*Term, c *Term, last bool) Value {
	n := len(b)
	conds := make([]*Term, n+1)
	ctx := it.ctx
	if !last {
		none := ctx.True
		for i := 0; i < n; i++ {
			hit := ctx.Eq(b[i], c)
			conds[i] = ctx.And(none, hit)
			none = ctx.And(none, ctx.Not(hit))
		}
		conds[n] = none
	} else {
		none := ctx.True
		for i := n - 1; i >= 0; i-- {
			hit := ctx.Eq(b[i], c)
			conds[i] = ctx.And(none, hit)
			none = ctx.And(none, ctx.Not(hit))
		}
		conds[n] = none
	}
	d := it.decide(conds, "indexbyte@"+it.site())
	if d == n {
		return ctx.BV(^uint64(0), 64)
	}
	return ctx.BV(uint64(d), 64)
}

func (it *Interp) countByte(b []*Term, c *Term) Value {
	ctx := it.ctx
	cnt := ctx.BV(0, 64)
	for _, x := range b {
		cnt = ctx.Add(cnt, ctx.Ite(ctx.Eq(x, c), ctx.BV(1, 64), ctx.BV(0, 64)))
	}
	return cnt
}

func (it *Interp) matchAt(s, sub []*Term, i int) *Term {
	cs := make([]*Term, len(sub))
	for j := range sub {
		cs[j] = it.ctx.Eq(s[i+j], sub[j])
	}
	return it.ctx.And(cs...)
}

func (it *Interp) indexString(s, sub []*Term) Value {
	ctx := it.ctx
	if len(sub) == 0 {
		return ctx.BV(0, 64)
	}
	n := len(s) - len(sub) + 1
	if n <= 0 {
		return ctx.BV(^uint64(0), 64)
	}
	conds := make([]*Term, n+1)
	none := ctx.True
	for i := 0; i < n; i++ {
		hit := it.matchAt(s, sub, i)
		conds[i] = ctx.And(none, hit)
		none = ctx.And(none, ctx.Not(hit))
	}
	conds[n] = none
	d := it.decide(conds, "indexstring@"+it.site())
	if d == n {
		return ctx.BV(^uint64(0), 64)
	}
	return ctx.BV(uint64(d), 64)
}

func mStringsContains(it *Interp, fn *ssa.Function, a []Value) Value {
	s, sub := a[0].(*StrV).b, a[1].(*StrV).b
	if len(sub) == 0 {
		return it.ctx.True
	}
	var hits []*Term
	for i := 0; i+len(sub) <= len(s); i++ {
		hits = append(hits, it.matchAt(s, sub, i))
	}
	return it.ctx.Or(hits...)
}
func mStringsIndex(it *Interp, fn *ssa.Function, a []Value) Value {
	return it.indexString(a[0].(*StrV).b, a[1].(*StrV).b)
}
func mStringsIndexByte(it *Interp, fn *ssa.Function, a []Value) Value {
	return it.indexByte(a[0].(*StrV).b, it.term(a[1], "byte"), false)
}
func mStringsLastIndexByte(it *Interp, fn *ssa.Function, a []Value) Value {
	return it.indexByte(a[0].(*StrV).b, it.term(a[1], "byte"), true)
}
func mStringsLastIndex(it *Interp, fn *ssa.Function, a []Value) Value {
	s, sub := a[0].(*StrV).b, a[1].(*StrV).b
	ctx := it.ctx
	if len(sub) == 0 {
		return ctx.BV(uint64(len(s)), 64)
	}
	n := len(s) - len(sub) + 1
	if n <= 0 {
		return ctx.BV(^uint64(0), 64)
	}
	conds := make([]*Term, n+1)
	none := ctx.True
	for i := n - 1; i >= 0; i-- {
		hit := it.matchAt(s, sub, i)
		conds[i] = ctx.And(none, hit)
		none = ctx.And(none, ctx.Not(hit))
	}
	conds[n] = none
	d := it.decide(conds, "lastindex@"+it.site())
	if d == n {
		return ctx.BV(^uint64(0), 64)
	}
	return ctx.BV(uint64(d), 64)
}
func mStringsHasPrefix(it *Interp, fn *ssa.Function, a []Value) Value {
	s, p := a[0].(*StrV).b, a[1].(*StrV).b
	if len(p) > len(s) {
		return it.ctx.False
	}
	return it.matchAt(s, p, 0)
}
func mStringsHasSuffix(it *Interp, fn *ssa.Function, a []Value) Value {
	s, p := a[0].(*StrV).b, a[1].(*StrV).b
	if len(p) > len(s) {
		return it.ctx.False
	}
	return it.matchAt(s, p, len(s)-len(p))
}
func mBytesEqual(it *Interp, fn *ssa.Function, a []Value) Value {
	return it.strEq(&StrV{it.bytesOfSlice(a[0].(*SliceV))}, &StrV{it.bytesOfSlice(a[1].(*SliceV))})
}
func mBytesIndexByte(it *Interp, fn *ssa.Function, a []Value) Value {
	return it.indexByte(it.bytesOfSlice(a[0].(*SliceV)), it.term(a[1], "byte"), false)
}

// ---------------------------------------------------------------------------------------
// sync

func (it *Interp) mutexCell(v Value) *Cell {
	p := it.ptr(v)
	if p.IsNil() {
		it.rtPanic("invalid memory address or nil pointer dereference (nil mutex)")
	}
	return it.resolve(p)
}

func mMutexLock(it *Interp, fn *ssa.Function, a []Value) Value {
	c := it.mutexCell(a[0])
	it.yield("lock")
	if it.mutex[c] != 0 {
		if it.threadsOn() {
			it.block(func() bool { return it.mutex[c] == 0 }, "mutex")
		} else {
			panic(pathEnd{"blocked", "deadlock: Lock of a held mutex at " + it.site()})
		}
	}
	it.mutex[c] = -1
	return nil
}
func mMutexTryLock(it *Interp, fn *ssa.Function, a []Value) Value {
	c := it.mutexCell(a[0])
	if it.mutex[c] != 0 {
		return it.ctx.False
	}
	it.mutex[c] = -1
	return it.ctx.True
}
func mMutexUnlock(it *Interp, fn *ssa.Function, a []Value) Value {
	c := it.mutexCell(a[0])
	if it.mutex[c] != -1 {
		panic(&goPanic{msg: "sync: unlock of unlocked mutex", runtime: true, site: it.site()})
	}
	it.mutex[c] = 0
	it.yield("unlock")
	return nil
}
func mRLock(it *Interp, fn *ssa.Function, a []Value) Value {
	c := it.mutexCell(a[0])
	it.yield("rlock")
	if it.mutex[c] == -1 {
		if it.threadsOn() {
			it.block(func() bool { return it.mutex[c] != -1 }, "rwmutex")
		} else {
			panic(pathEnd{"blocked", "deadlock: RLock of a write-held mutex at " + it.site()})
		}
	}
	it.mutex[c]++
	return nil
}
func mRUnlock(it *Interp, fn *ssa.Function, a []Value) Value {
	c := it.mutexCell(a[0])
	if it.mutex[c] <= 0 {
		panic(&goPanic{msg: "sync: RUnlock of unlocked RWMutex", runtime: true, site: it.site()})
	}
	it.mutex[c]--
	it.yield("runlock")
	return nil
}
func mOnceDo(it *Interp, fn *ssa.Function, a []Value) Value {
	c := it.mutexCell(a[0])
	if it.mutex[c] == 0 {
		it.mutex[c] = 1
		it.callValue(a[1], nil, nil)
	}
	return nil
}
func (it *Interp) wgAdd(v Value, d int) Value {
	c := it.mutexCell(v)
	it.mutex[c] += d
	if it.mutex[c] < 0 {
		panic(&goPanic{msg: "sync: negative WaitGroup counter", runtime: true, site: it.site()})
	}
	return nil
}
func mWGAdd(it *Interp, fn *ssa.Function, a []Value) Value {
	d := it.term(a[1], "wg delta")
	if !d.IsConst() {
		it.inconclusive("symbolic WaitGroup delta")
	}
	return it.wgAdd(a[0], int(d.SVal()))
}
func mWGWait(it *Interp, fn *ssa.Function, a []Value) Value {
	c := it.mutexCell(a[0])
	if it.mutex[c] != 0 {
		if it.threadsOn() {
			it.block(func() bool { return it.mutex[c] == 0 }, "waitgroup")
			return nil
		}
		// single-threaded: run pending goroutines to completion
		for _, p := range it.pending {
			if !p.done {
				p.done = true
				it.callValue(p.fnv, p.args, p.call)
			}
		}
		if it.mutex[c] != 0 {
			panic(pathEnd{"blocked", "WaitGroup.Wait would block at " + it.site()})
		}
	}
	return nil
}

func hLocked(it *Interp, fn *ssa.Function, a []Value) Value {
	c := it.mutexCell(a[0])
	return it.ctx.Bool(it.mutex[c] != 0)
}

// atomics: the pointer operand is a cell; operations are ordinary loads/stores (single thread / scheduler-atomic)
func atomicModel(name string) interceptFn {
	base := name[strings.LastIndex(name, ".")+1:]
	isMethod := strings.HasPrefix(name, "(*sync/atomic.")
	return func(it *Interp, fn *ssa.Function, a []Value) Value {
		var cell *Cell
		if isMethod {
			c := it.resolve(it.ptr(a[0]))
			// typed atomics: struct{ _ noCopy; [_ align64;] v T } – value is the last field
			for len(c.kids) > 0 {
				c = c.kids[len(c.kids)-1]
			}
			cell = c
		} else {
			cell = it.resolve(it.ptr(a[0]))
		}
		rest := a[1:]
		switch {
		case strings.HasPrefix(base, "Load"):
			if isBoolCell(cell) {
				return it.ctx.Not(it.ctx.Eq(cell.v.(*Term), it.ctx.BV(0, 32)))
			}
			return it.loadCell(cell)
		case strings.HasPrefix(base, "Store"):
			if isBoolCell(cell) {
				cell.v = it.ctx.Ite(it.term(rest[0], "b"), it.ctx.BV(1, 32), it.ctx.BV(0, 32))
				return nil
			}
			it.storeCell(cell, rest[0])
			return nil
		case strings.HasPrefix(base, "Add"):
			nv := it.ctx.Add(cell.v.(*Term), it.term(rest[0], "delta"))
			cell.v = nv
			return nv
		case strings.HasPrefix(base, "Swap"):
			old := it.loadCell(cell)
			if isBoolCell(cell) {
				oldb := it.ctx.Not(it.ctx.Eq(cell.v.(*Term), it.ctx.BV(0, 32)))
				cell.v = it.ctx.Ite(it.term(rest[0], "b"), it.ctx.BV(1, 32), it.ctx.BV(0, 32))
				return oldb
			}
			it.storeCell(cell, rest[0])
			return old
		case strings.HasPrefix(base, "CompareAndSwap"):
			var eq *Term
			if isBoolCell(cell) {
				cur := it.ctx.Not(it.ctx.Eq(cell.v.(*Term), it.ctx.BV(0, 32)))
				eq = it.ctx.Eq(cur, it.term(rest[0], "old"))
				if it.branch(eq, "cas") {
					cell.v = it.ctx.Ite(it.term(rest[1], "b"), it.ctx.BV(1, 32), it.ctx.BV(0, 32))
					return it.ctx.True
				}
				return it.ctx.False
			}
			eq = it.equal(it.loadCell(cell), rest[0])
			if it.branch(eq, "cas") {
				it.storeCell(cell, rest[1])
				return it.ctx.True
			}
			return it.ctx.False
		}
		it.inconclusive("atomic op " + name)
		return nil
	}
}

func isBoolCell(c *Cell) bool {
	// atomic.Bool stores a uint32
	return false
}

// sync.Map / sync.Pool: simple association list / no reuse
type syncMapState struct{ m *MapObj }

func syncContainerModel(name string) interceptFn {
	base := name[strings.LastIndex(name, ".")+1:]
	if strings.HasPrefix(name, "(*sync.Pool).") {
		return func(it *Interp, fn *ssa.Function, a []Value) Value {
			switch base {
			case "Get":
				c := it.resolve(it.ptr(a[0]))
				// field New is the last field
				newF := c.kids[len(c.kids)-1].v
				if cl, ok := newF.(*Closure); ok && cl == nil {
					return &IfaceV{}
				}
				return it.callValue(newF, nil, nil)
			case "Put":
				return nil
			}
			it.inconclusive("sync.Pool." + base)
			return nil
		}
	}
	return func(it *Interp, fn *ssa.Function, a []Value) Value {
		c := it.resolve(it.ptr(a[0]))
		st, _ := it.ghost[fmt.Sprintf("syncmap:%p", c)].(*MapObj)
		if st == nil {
			st = &MapObj{}
			it.ghost[fmt.Sprintf("syncmap:%p", c)] = st
		}
		switch base {
		case "Load":
			if e := it.mapFind(st, a[1]); e != nil {
				return TupleV{e.v, it.ctx.True}
			}
			return TupleV{&IfaceV{}, it.ctx.False}
		case "Store":
			it.mapSet(st, a[1], a[2])
			return nil
		case "LoadOrStore":
			if e := it.mapFind(st, a[1]); e != nil {
				return TupleV{e.v, it.ctx.True}
			}
			it.mapSet(st, a[1], a[2])
			return TupleV{a[2], it.ctx.False}
		case "Delete":
			it.mapDelete(st, a[1])
			return nil
		}
		it.inconclusive("sync.Map." + base)
		return nil
	}
}

// sort.Slice on a concrete-length slice: insertion sort with the real less function
func mSortSlice(it *Interp, fn *ssa.Function, a []Value) Value {
	iv := a[0].(*IfaceV)
	s, ok := iv.V.(*SliceV)
	if !ok {
		it.inconclusive("sort.Slice on non-slice")
	}
	less := a[1]
	cells := s.cells()
	n := len(cells)
	swap := func(i, j int) {
		vi, vj := it.loadCell(cells[i]), it.loadCell(cells[j])
		it.storeCell(cells[i], vj)
		it.storeCell(cells[j], vi)
	}
	for i := 1; i < n; i++ {
		for j := i; j > 0; j-- {
			r := it.term(it.callValue(less, []Value{it.ctx.BV(uint64(j), 64), it.ctx.BV(uint64(j-1), 64)}, nil), "less")
			if !it.branch(r, "sortless") {
				break
			}
			swap(j, j-1)
		}
	}
	return nil
}
