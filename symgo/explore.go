package main

// Path exploration by re-execution, job configuration and results.

import (
	"fmt"
	"os"
	"path/filepath"
	"regexp"
	"sort"
	"strings"
	"sync"
	"time"

	"golang.org/x/tools/go/packages"
	"golang.org/x/tools/go/ssa"
	"golang.org/x/tools/go/ssa/ssautil"
)

type Job struct {
	ID    string
	Pkg   string // import path suffix, e.g. internal/transfer
	Entry string // harness function
	Desc  string

	MaxSteps         int
	Unwind           int
	MaxSymAlloc      int
	MaxConcreteAlloc int
	MaxPaths         int
	MaxFileSize      int
	FSBlock          int
	FixedClock       bool
	TimersNeverFire  bool
	TimerBudget      int // when > 0: timers may fire, but at most this many times per path
	MapOrderSorted   bool
	StopAtViolation  bool
	PanicOK          bool
	BlockedOK        bool
	IntMode          bool
	Solver           string
	TimeoutMs        int
	Workers          int
	AllocLimit       uint64 // bytes; 0 = oracle off
	Cross            bool   // re-check deciding queries on secondary solvers

	DenyCall        func(name string) bool
	GoInline        func(label string) bool
	Threads         bool // tier 3: goroutines are symbolic threads with symbolic schedules
	Preempt         int  // bound on preemptions per path (0: switch only when blocked)
	EagerCalls      []string // threads whose body calls one of these commute with all others: scheduled first, no fork
	PreemptAt       string // restrict preemption points to these kinds (e.g. "select"); empty: all visible operations
	CanonicalBlock  bool // at blocking points the first-created runnable thread continues (no fork); forks only at preemptions
	GoInlineCalls   []string // goroutines whose body calls one of these functions run to completion when spawned
	OnAlloc         func(it *Interp, ev AllocEvent)
	OnBlockedSend   func(it *Interp, ch *ChanObj, v Value) bool
	OnBlockedSelect func(it *Interp, x *ssa.Select) int
	OnFSEffect      func(it *Interp, e FSEffect)
	FSFaults        func(op string) bool
	Setup           func(it *Interp)             // before the entry runs
	EntryFn         func(it *Interp) *ssa.Function // engine-side entry selection (closure/region units)
	Run             func(it *Interp)             // engine-side harness body (replaces Entry)
	Probe           func(it *Interp, fn *ssa.Function, name string, v Value) bool
	OnJSONUnmarshal func(it *Interp, dst *IfaceV)
	JSONLens        []int
	Stubs           map[string]interceptFn
	OneShot         bool // non-incremental solving (floating point)
	DiffSamples     int // number of passing paths whose models are replayed natively (must pass there too)
	CancelOnlyIdle  bool // caller-owned contexts are cancelled only when every thread waits (not at arbitrary observations)
	NoDiff          bool // passing paths are not replayed natively (the harness depends on a symbolic clock or schedule)
	ReplayInstr     []SrcInsert // textual insertions into copies of repository files for the native replay
	ReplayTest      string   // native test (in the harness dir's *_test.go files) that replays a model of this job
	CutCalls        []string // calls to functions whose name ends with one of these end the path as outside the unit
	HangIsViolation bool // exceeding the step budget is reported as a hang candidate (replayed natively with a watchdog)
	UnwindIsBound   bool // reaching the unwinding bound is a stated bound (outside the claim), not an unwinding failure

	mu  sync.Mutex
	res JobResult
	crossDone int
}

type JobResult struct {
	Paths        int
	Outcomes     map[string]int
	Violations   []Violation
	Inconclusive map[string]int
	Truncated    map[string]int
	Covers       map[string]bool
	AssertSites  map[string]int
	Discharged   int
	Trivial      int
	UnknownAsserts map[string]int
	Notes        map[string]int
	Queries      int
	Steps        int64
	Wall         float64
	Samples      []string
	MaxTermSize  int
	CrossIssues  []string
	Funcs        map[string]bool
	OkModels     []string // inputs (JSON) of some passing paths, for the native differential run
}

func (j *Job) defaults() {
	if j.MaxSteps == 0 {
		j.MaxSteps = 2_000_000
	}
	if j.MaxSymAlloc == 0 {
		j.MaxSymAlloc = 4
	}
	if j.MaxConcreteAlloc == 0 {
		j.MaxConcreteAlloc = 1 << 22
	}
	if j.MaxPaths == 0 {
		j.MaxPaths = 200000
	}
	if j.MaxFileSize == 0 {
		j.MaxFileSize = 64
	}
	if j.Solver == "" {
		j.Solver = "z3-new"
	}
	if j.TimeoutMs == 0 {
		j.TimeoutMs = 30000
	}
	if j.Workers == 0 {
		j.Workers = 4
	}
	if j.DiffSamples == 0 {
		j.DiffSamples = 2
	}
	j.res = JobResult{Outcomes: map[string]int{}, Inconclusive: map[string]int{}, Truncated: map[string]int{}, Covers: map[string]bool{},
		AssertSites: map[string]int{}, UnknownAsserts: map[string]int{}, Notes: map[string]int{}, Funcs: map[string]bool{}}
}

func (j *Job) noteAssert(site string) {
	j.mu.Lock()
	j.res.AssertSites[site]++
	j.mu.Unlock()
}
func (j *Job) noteTrivial() {
	j.mu.Lock()
	j.res.Trivial++
	j.mu.Unlock()
}
func (j *Job) noteUnknown(site string) {
	j.mu.Lock()
	j.res.UnknownAsserts[site]++
	j.mu.Unlock()
}
func (j *Job) noteDischarged(it *Interp, c *Term, msg string) {
	sz := it.ctx.Size(c)
	var cross string
	j.mu.Lock()
	doCross := j.Cross && j.crossDone < 40
	if doCross {
		j.crossDone++
	}
	j.mu.Unlock()
	if doCross {
		script := it.sol.Script(it.ctx.Not(c))
		var others []string
		for _, k := range []string{"z3-new", "z3", "cvc5"} {
			if k != j.Solver {
				others = append(others, k)
			}
		}
		if j.IntMode {
			others = nil // Int-with-wrap scripts are only decided by the primary (DESIGN §9)
		}
		cross = crossCheck(script, "unsat", others, 20000)
	}
	j.mu.Lock()
	j.res.Discharged++
	if sz > j.res.MaxTermSize {
		j.res.MaxTermSize = sz
	}
	if len(j.res.Samples) < 4 {
		j.res.Samples = append(j.res.Samples, fmt.Sprintf("%s: assert %q unsat under %d path literals, formula %d nodes", j.ID, msg, len(it.pc), sz))
	}
	if cross != "" {
		j.res.CrossIssues = append(j.res.CrossIssues, j.ID+": "+msg+": "+cross)
	}
	j.mu.Unlock()
}

var gSem = make(chan struct{}, 16)

// Explore runs all paths of the job.
func Explore(prog *ssa.Program, j *Job) *JobResult {
	j.defaults()
	t0 := time.Now()
	var mu sync.Mutex
	work := [][]int{{}}
	active := 0
	cond := sync.NewCond(&mu)
	var wg sync.WaitGroup
	for w := 0; w < j.Workers; w++ {
		wg.Add(1)
		go func() {
			defer wg.Done()
			ctx := NewCtx()
			sol := NewSolver(ctx, j.Solver, j.IntMode, j.TimeoutMs)
			sol.oneShot = j.OneShot
			defer func() { sol.Close() }()
			cache := newSatCache()
			npaths := 0
			for {
				mu.Lock()
				for len(work) == 0 && active > 0 {
					cond.Wait()
				}
				if len(work) == 0 && active == 0 {
					mu.Unlock()
					cond.Broadcast()
					return
				}
				prefix := work[len(work)-1]
				work = work[:len(work)-1]
				if j.res.Paths >= j.MaxPaths {
					j.res.Inconclusive["path budget exceeded"]++
					work = nil
					mu.Unlock()
					cond.Broadcast()
					if active == 0 {
						return
					}
					continue
				}
				j.res.Paths++
				active++
				mu.Unlock()

				gSem <- struct{}{}
				npaths++
				if npaths%2000 == 0 || len(cache.m) > 400000 {
					// keep term tables from growing without bound
					sol.Close()
					ctx = NewCtx()
					sol = NewSolver(ctx, j.Solver, j.IntMode, j.TimeoutMs)
					sol.oneShot = j.OneShot
					cache = newSatCache()
				}
				alts := runPath(prog, j, ctx, sol, cache, prefix)
				<-gSem

				mu.Lock()
				work = append(work, alts...)
				active--
				mu.Unlock()
				cond.Broadcast()
			}
		}()
	}
	wg.Wait()
	j.res.Wall = time.Since(t0).Seconds()
	return &j.res
}

func runPath(prog *ssa.Program, j *Job, ctx *Ctx, sol *Solver, cache *SatCache, prefix []int) (alts [][]int) {
	sol.Reset()
	sol.lastErr = ""
	it := &Interp{prog: prog, ctx: ctx, sol: sol, job: j, prefix: prefix, cache: cache,
		globals: map[*ssa.Global]*Cell{}, initDone: map[*ssa.Package]bool{}, names: map[string]int{},
		mutex: map[*Cell]int{}, covers: map[string]bool{}, unwind: map[*ssa.BasicBlock]int{}, fs: newFS(), ghost: map[string]Value{}, funcs: map[string]bool{}, probes: map[string]Value{}}
	outcome := "ok"
	detail := ""
	var gp *goPanic
	func() {
		defer func() {
			if r := recover(); r != nil {
				switch x := r.(type) {
				case pathEnd:
					outcome, detail = x.kind, x.msg
				case *goPanic:
					outcome, detail = "panic", x.msg+" @"+x.site
					gp = x
				case errIntMode:
					outcome, detail = "inconclusive", x.msg
				default:
					panic(r)
				}
			}
		}()
		if j.Threads {
			it.initThreads()
			defer it.killThreads()
		}
		if j.Setup != nil {
			j.Setup(it)
		}
		if j.Run != nil {
			j.Run(it)
			return
		}
		var fn *ssa.Function
		if j.EntryFn != nil {
			fn = j.EntryFn(it)
		} else {
			fn = findPkgFunc(prog, j.Pkg, j.Entry)
		}
		if fn == nil {
			panic(pathEnd{"inconclusive", "entry " + j.Entry + " not found in " + j.Pkg})
		}
		it.call(fn, nil, nil)
	}()
	// violations by outcome
	if outcome == "panic" && !j.PanicOK {
		r, m := sol.Check(true)
		if r == "sat" {
			it.violations = append(it.violations, Violation{Msg: detail, Site: gp.fn, Model: m, Kind: "panic", Decisions: append([]int{}, it.taken...)})
		}
	}
	if outcome == "inconclusive" && strings.HasPrefix(detail, "step budget exceeded") && j.HangIsViolation {
		r, m := sol.Check(true)
		if r == "sat" {
			outcome = "hang"
			it.violations = append(it.violations, Violation{Msg: "no termination within the step budget (hang candidate)", Site: it.fnName(), Model: m, Kind: "hang", Decisions: append([]int{}, it.taken...)})
		}
	}
	if outcome == "blocked" && !j.BlockedOK {
		r, m := sol.Check(true)
		if r == "sat" {
			it.violations = append(it.violations, Violation{Msg: detail, Site: it.fnName(), Model: m, Kind: "blocked", Decisions: append([]int{}, it.taken...)})
		}
	}
	for i := range it.violations {
		it.violations[i].Extra = map[string]string{"inputs": it.inputsJSON(it.violations[i].Model)}
		if len(it.tags) > 0 {
			it.violations[i].Msg += " [" + strings.Join(it.tags, " ") + "]"
		}
	}
	if os.Getenv("SYMGO_DEBUG") != "" {
		fmt.Fprintf(os.Stderr, "path %v -> %s %s (steps %d, queries %d, pc %d)\n", it.taken, outcome, detail, it.steps, it.nQueries, len(it.pc))
	}
	j.mu.Lock()
	j.res.Outcomes[outcome]++
	if outcome == "unwind" && j.UnwindIsBound {
		outcome = "truncated"
	}
	switch outcome {
	case "inconclusive", "unwind":
		j.res.Inconclusive[detail]++
	case "truncated":
		j.res.Truncated[detail]++
	}
	j.res.Violations = append(j.res.Violations, it.violations...)
	for c := range it.covers {
		j.res.Covers[c] = true
	}
	for _, n := range it.notes {
		j.res.Notes[n]++
	}
	for f := range it.funcs {
		j.res.Funcs[f] = true
	}
	if outcome == "ok" && len(it.violations) == 0 && j.Entry != "" && j.Run == nil && len(it.inputs) > 0 && len(j.res.OkModels) < j.DiffSamples && (j.res.Paths%5 == 1 || j.res.Paths < 4) {
		// a model of this passing path, to be replayed natively (translator validation)
		j.mu.Unlock()
		r, m := sol.Check(true)
		j.mu.Lock()
		if r == "sat" && len(j.res.OkModels) < j.DiffSamples {
			j.res.OkModels = append(j.res.OkModels, it.inputsJSON(m))
		}
	}
	j.res.Queries += it.nQueries
	j.res.Steps += int64(it.steps)
	if len(j.res.Samples) < 8 && outcome == "ok" && len(it.inputs) > 0 && j.res.Paths%7 == 1 {
		j.res.Samples = append(j.res.Samples, fmt.Sprintf("%s: path with %d decisions, %d literals, inputs %s", j.ID, len(it.taken), len(it.pc), it.inputSummary()))
	}
	j.mu.Unlock()
	return it.alts
}

func (it *Interp) inputSummary() string {
	var parts []string
	for _, in := range it.inputs {
		switch in.Kind {
		case "bytes", "string":
			parts = append(parts, fmt.Sprintf("%s:%s[%d]", in.Name, in.Kind, in.N))
		case "choice":
			parts = append(parts, fmt.Sprintf("%s=%d", in.Name, in.Choice))
		default:
			parts = append(parts, in.Name+":"+in.Kind)
		}
		if len(parts) > 12 {
			parts = append(parts, "…")
			break
		}
	}
	return strings.Join(parts, " ")
}

// inputsJSON renders the harness inputs under a model as a JSON object for the native replay runtime.
func (it *Interp) inputsJSON(m Model) string {
	var sb strings.Builder
	sb.WriteString("{")
	first := true
	for _, in := range it.inputs {
		if !first {
			sb.WriteString(",")
		}
		first = false
		fmt.Fprintf(&sb, "%q:", in.Name)
		switch in.Kind {
		case "bytes", "string":
			sb.WriteString("\"")
			for _, t := range in.Terms {
				fmt.Fprintf(&sb, "%02x", it.ctx.Eval(t, m, nil)&0xff)
			}
			sb.WriteString("\"")
		case "choice":
			fmt.Fprintf(&sb, "\"%d\"", in.Choice)
		case "bool":
			fmt.Fprintf(&sb, "\"%d\"", it.ctx.Eval(in.Terms[0], m, nil))
		default:
			fmt.Fprintf(&sb, "\"%d\"", it.ctx.Eval(in.Terms[0], m, nil))
		}
	}
	sb.WriteString("}")
	return sb.String()
}

func findPkgFunc(prog *ssa.Program, pkgSuffix, name string) *ssa.Function {
	for _, p := range prog.AllPackages() {
		if strings.HasSuffix(p.Pkg.Path(), pkgSuffix) {
			if f := p.Func(name); f != nil {
				return f
			}
		}
	}
	return nil
}

// ---------------------------------------------------------------------------------------
// Loading /repo with harness overlays

type Loaded struct {
	Prog    *ssa.Program
	Pkgs    []*packages.Package
	LoadSec float64
}

const repoModule = "github.com/sheerbytes/sheerbytes"

func repoDir() string {
	if d := os.Getenv("VERIF_REPO"); d != "" {
		return d
	}
	return "/repo"
}

func verifDir() string {
	if d := os.Getenv("VERIF_DIR"); d != "" {
		return d
	}
	exe, err := os.Executable()
	if err == nil {
		d := filepath.Dir(filepath.Dir(exe))
		if _, err := os.Stat(filepath.Join(d, "harness")); err == nil {
			return d
		}
	}
	return "/verif"
}

// harnessOverlay returns overlay entries for all harness files of the given package dirs.
// native=false: files for the engine; native=true additionally maps *_test.go replay drivers.
func harnessOverlay(pkgDirs []string) map[string][]byte {
	ov := map[string][]byte{}
	for _, pd := range pkgDirs {
		hd := filepath.Join(verifDir(), "harness", pd)
		ents, err := os.ReadDir(hd)
		if err != nil {
			continue
		}
		pkgName := ""
		for _, e := range ents {
			if !strings.HasSuffix(e.Name(), ".go") || strings.HasSuffix(e.Name(), "_test.go") {
				continue
			}
			b, err := os.ReadFile(filepath.Join(hd, e.Name()))
			if err != nil {
				continue
			}
			ov[filepath.Join(repoDir(), pd, e.Name())] = b
			if pkgName == "" {
				for _, l := range strings.Split(string(b), "\n") {
					if strings.HasPrefix(l, "package ") {
						pkgName = strings.TrimSpace(strings.TrimPrefix(l, "package "))
						break
					}
				}
			}
		}
		// registry of harness entry points (for the native replay driver)
		var reg strings.Builder
		fmt.Fprintf(&reg, "package %s\n\nvar vHarnesses = map[string]func(){\n", pkgName)
		for _, e := range ents {
			if !strings.HasSuffix(e.Name(), ".go") || strings.HasSuffix(e.Name(), "_test.go") {
				continue
			}
			b, _ := os.ReadFile(filepath.Join(hd, e.Name()))
			for _, m := range harnessFuncRe.FindAllStringSubmatch(string(b), -1) {
				fmt.Fprintf(&reg, "\t%q: %s,\n", m[1], m[1])
			}
		}
		reg.WriteString("}\n")
		if pkgName != "" {
			ov[filepath.Join(repoDir(), pd, "zz_verif_reg.go")] = []byte(reg.String())
		}
		rt, err := os.ReadFile(filepath.Join(verifDir(), "harness", "zz_verif_rt.go.tmpl"))
		if err == nil && pkgName != "" {
			ov[filepath.Join(repoDir(), pd, "zz_verif_rt.go")] = []byte(strings.Replace(string(rt), "package PKG", "package "+pkgName, 1))
		}
	}
	return ov
}

var harnessFuncRe = regexp.MustCompile(`(?m)^func (H_\w+)\(\)`)

// SrcInsert: insert Text on a new line after the first line containing Anchor in File (repo-relative).
type SrcInsert struct {
	File, Anchor, Text string
	All                bool // after every matching line
	Before             bool // insert before the matching line instead of after it
}

// harnessTestOverlay maps the replay drivers (*_test.go of the harness dirs).
func harnessTestOverlay(pkgDirs []string) map[string][]byte {
	ov := map[string][]byte{}
	for _, pd := range pkgDirs {
		hd := filepath.Join(verifDir(), "harness", pd)
		ents, _ := os.ReadDir(hd)
		for _, e := range ents {
			if strings.HasSuffix(e.Name(), "_test.go") {
				if b, err := os.ReadFile(filepath.Join(hd, e.Name())); err == nil {
					ov[filepath.Join(repoDir(), pd, e.Name())] = b
				}
			}
		}
	}
	return ov
}

func fileSum(p string) string {
	b, err := os.ReadFile(p)
	if err != nil {
		return "missing"
	}
	return fmt.Sprintf("%d:%x", len(b), fnv64(b))
}

func fnv64(b []byte) uint64 {
	h := uint64(14695981039346656037)
	for _, c := range b {
		h ^= uint64(c)
		h *= 1099511628211
	}
	return h
}

func loadRepo(pkgDirs []string) (*Loaded, error) {
	t0 := time.Now()
	sumBefore := fileSum(filepath.Join(repoDir(), "go.mod")) + fileSum(filepath.Join(repoDir(), "go.sum"))
	var patterns []string
	for _, pd := range pkgDirs {
		patterns = append(patterns, "./"+pd)
	}
	sort.Strings(patterns)
	cfg := &packages.Config{
		Mode:    packages.LoadAllSyntax,
		Dir:     repoDir(),
		Overlay: harnessOverlay(pkgDirs),
		Env:     append(os.Environ(), "GOFLAGS=-mod=mod", "GOPROXY=off", "GOTOOLCHAIN=local", "GOWORK=off"),
	}
	pkgs, err := packages.Load(cfg, patterns...)
	if err != nil {
		return nil, err
	}
	nerr := 0
	var first string
	packages.Visit(pkgs, nil, func(p *packages.Package) {
		for _, e := range p.Errors {
			nerr++
			if first == "" {
				first = e.Error()
			}
		}
	})
	if nerr > 0 {
		return nil, fmt.Errorf("%d load errors, first: %s", nerr, first)
	}
	prog, _ := ssautil.AllPackages(pkgs, ssa.InstantiateGenerics|ssa.GlobalDebug)
	prog.Build()
	sumAfter := fileSum(filepath.Join(repoDir(), "go.mod")) + fileSum(filepath.Join(repoDir(), "go.sum"))
	if sumBefore != sumAfter {
		return nil, fmt.Errorf("loading changed go.mod/go.sum of the repository")
	}
	return &Loaded{Prog: prog, Pkgs: pkgs, LoadSec: time.Since(t0).Seconds()}, nil
}
