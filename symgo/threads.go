package main

// Tier 3: cooperative goroutines with symbolic schedules. Every symbolic thread runs on its own Go
// goroutine but only the holder of the baton executes; a thread gives the baton up when it blocks
// (channel operation, select, mutex, WaitGroup) or - when the job allows preemptions - before a
// visible operation. Which runnable thread continues is a symbolic choice (forked like any branch).

import (
	"fmt"
	"strings"

	"golang.org/x/tools/go/ssa"
)

type thread struct {
	id     int
	label  string
	wake   chan struct{}
	exited chan struct{}
	done   bool
	ready  func() bool // nil: runnable
	what   string
	where  string
	main   bool
	eager  bool
	started bool
}

type threadSys struct {
	threads  []*thread
	cur      *thread
	abort    interface{}
	aborting bool
	preempts int
}

type threadKill struct{}

func (it *Interp) threadsOn() bool { return it.ts != nil }

func (it *Interp) initThreads() {
	m := &thread{id: 0, label: "main", wake: make(chan struct{}, 1), main: true, started: true}
	it.ts = &threadSys{threads: []*thread{m}, cur: m}
}

func (it *Interp) spawnThread(fnv Value, args []Value, label string) {
	ts := it.ts
	t := &thread{id: len(ts.threads), label: label, wake: make(chan struct{}, 1), exited: make(chan struct{})}
	if len(it.job.EagerCalls) > 0 {
		var gfn *ssa.Function
		switch f := fnv.(type) {
		case *ssa.Function:
			gfn = f
		case *Closure:
			if f != nil {
				gfn = f.fn
			}
		}
		if gfn != nil {
			for _, cn := range it.job.EagerCalls {
				if callsNamed(gfn, cn) {
					t.eager = true
				}
			}
		}
	}
	ts.threads = append(ts.threads, t)
	go func() {
		defer close(t.exited)
		<-t.wake
		if ts.aborting {
			t.done = true
			return
		}
		t.started = true
		defer func() {
			r := recover()
			t.done = true
			if r != nil {
				if _, ok := r.(threadKill); ok {
					return
				}
				// a panic or path end inside a goroutine ends the whole path
				if ts.abort == nil {
					ts.abort = r
				}
				ts.cur = ts.threads[0]
				ts.threads[0].wake <- struct{}{}
				return
			}
			// finished: hand the baton on
			it.passBatonFromDead()
		}()
		it.callValue(fnv, args, nil)
	}()
}

func (ts *threadSys) runnable(except *thread) []*thread {
	var out []*thread
	for _, t := range ts.threads {
		if t.done || t == except {
			continue
		}
		if t.ready == nil || t.ready() {
			out = append(out, t)
		}
	}
	return out
}

func (it *Interp) pick(cands []*thread, what string) *thread {
	if len(cands) == 1 {
		return cands[0]
	}
	// partial-order reduction: threads declared independent (their steps commute with everyone
	// else's) run as soon as they can, without forking the schedule
	for _, t := range cands {
		if t.eager {
			return t
		}
	}
	if it.job.CanonicalBlock && !strings.HasPrefix(what, "preempt") {
		// canonical non-preemptive schedule: the runnable thread created first continues
		return cands[0]
	}
	sel := it.fresh("sched", SBV(8))
	conds := make([]*Term, len(cands))
	for j := range cands {
		if j == len(cands)-1 {
			conds[j] = it.ctx.ULE(it.ctx.BV(uint64(j), 8), sel)
		} else {
			conds[j] = it.ctx.Eq(sel, it.ctx.BV(uint64(j), 8))
		}
	}
	return cands[it.decide(conds, "schedule@"+what)]
}

// block parks the current thread until ready() holds.
func (it *Interp) block(ready func() bool, what string) {
	ts := it.ts
	cur := ts.cur
	cur.ready = ready
	cur.what, cur.where = what, it.site()
	for {
		run := ts.runnable(nil)
		if len(run) == 0 {
			// everybody waits: the caller may cancel its context now (external contexts are cancellable at any moment)
			cancelled := false
			for _, ec := range it.externalCtxs {
				if !ec.cancelled && it.branch(it.fresh("ctx_cancel_"+ec.label, SBool), "ctxcancel-idle") {
					it.ctxCancel(ec, "canceled")
					cancelled = true
					break
				}
			}
			if cancelled {
				continue
			}
			// global deadlock
			msg := fmt.Sprintf("all goroutines blocked (%s at %s) %s", what, it.site(), ts.describe())
			if cur.main {
				cur.ready = nil
				panic(pathEnd{"blocked", msg})
			}
			if ts.abort == nil {
				ts.abort = pathEnd{"blocked", msg}
			}
			ts.cur = ts.threads[0]
			ts.threads[0].wake <- struct{}{}
			<-cur.wake
			panic(threadKill{})
		}
		next := it.pick(run, what)
		if next == cur {
			cur.ready = nil
			return
		}
		it.switchTo(cur, next)
		// we hold the baton again
		if cur.ready == nil || cur.ready() {
			cur.ready = nil
			return
		}
	}
}

func (it *Interp) switchTo(cur, next *thread) {
	ts := it.ts
	ts.cur = next
	savePos, saveFunc, saveDepth := it.curPos, it.curFunc, it.depth
	next.wake <- struct{}{}
	<-cur.wake
	it.curPos, it.curFunc, it.depth = savePos, saveFunc, saveDepth
	if cur.main {
		if ts.abort != nil {
			a := ts.abort
			ts.abort = nil
			panic(a)
		}
		return
	}
	if ts.aborting {
		panic(threadKill{})
	}
}

// passBatonFromDead: the finished thread's goroutine hands the baton to another runnable thread.
func (it *Interp) passBatonFromDead() {
	ts := it.ts
	defer func() {
		if r := recover(); r != nil {
			if ts.abort == nil {
				ts.abort = r
			}
			ts.cur = ts.threads[0]
			ts.threads[0].wake <- struct{}{}
		}
	}()
	run := ts.runnable(nil)
	if len(run) == 0 {
		if ts.abort == nil {
			ts.abort = pathEnd{"blocked", "all goroutines blocked after a goroutine finished at " + it.site() + " " + ts.describe()}
		}
		ts.cur = ts.threads[0]
		ts.threads[0].wake <- struct{}{}
		return
	}
	next := it.pick(run, "goroutine exit")
	ts.cur = next
	next.wake <- struct{}{}
}

// yield: a preemption point before a visible operation (bounded number of preemptions per path).
func (it *Interp) yield(what string) {
	ts := it.ts
	if ts == nil || it.job.Preempt == 0 || ts.preempts >= it.job.Preempt {
		return
	}
	if it.job.PreemptAt != "" && !strings.Contains(it.job.PreemptAt, what) {
		return
	}
	cur := ts.cur
	others := ts.runnable(cur)
	if len(others) == 0 {
		return
	}
	if !it.branch(it.fresh("preempt", SBool), "preempt@"+what) {
		return
	}
	ts.preempts++
	next := it.pick(others, "preempt "+what)
	it.switchTo(cur, next)
}

// killThreads releases every parked goroutine at the end of a path.
func (it *Interp) killThreads() {
	ts := it.ts
	if ts == nil {
		return
	}
	ts.aborting = true
	for _, t := range ts.threads[1:] {
		if t.done {
			<-t.exited
			continue
		}
		t.wake <- struct{}{}
		<-t.exited
	}
}


func (ts *threadSys) describe() string {
	s := "{"
	for _, t := range ts.threads {
		if t.done {
			continue
		}
		s += fmt.Sprintf("%s:%s@%s; ", t.label, t.what, t.where)
	}
	return s + "}"
}
