package main

// Closure-unit obligations around the sender's resume plan (C04.b, C06.e, C17): the real
// applyResumeInfo closure of SendManifestMultiStream and its hash goroutine are executed from SSA on a
// symbolic FileResumeInfo, then the real nextChunkToSend is drained and the dispatched set is judged
// against the resume semantics (what must be sent, what must not be sent).

import (
	"fmt"
	"go/types"

	"golang.org/x/tools/go/ssa"
)

const tpkg = "internal/transfer"

func jobResumePlan(id string, maxTotal int) *Job {
	j := &Job{ID: id, Pkg: tpkg, Entry: "", Desc: fmt.Sprintf("applyResumeInfo + nextChunkToSend on a symbolic resume report, <= %d chunks", maxTotal)}
	j.ReplayTest = "TestVerifPlanReplay"
	j.Stubs = map[string]interceptFn{
		repoModule + "/internal/transfer.hashFileChunk": func(it *Interp, fn *ssa.Function, a []Value) Value {
			// the sender's hash of the verified chunk: arbitrary; an I/O error is a separate choice
			if it.Choice("hashErr", 2) == 1 {
				return TupleV{it.ctx.BV(0, 64), &IfaceV{T: symErrT, V: &SymErr{msg: it.constString("hash failed"), format: "x"}}}
			}
			return TupleV{it.In("senderHash", "u64", 64), &IfaceV{}}
		},
	}
	j.Run = func(it *Interp) {
		c := it.ctx
		ce := it.newClosureEnv(tpkg, "SendManifestMultiStream")
		apply := ce.FindClosure("applyResumeInfo")
		total := 1 + it.Choice("totalMinus1", maxTotal)
		cs := c.BV(4, 32)
		size := it.In("size", "i64", 64)
		it.Assume(c.SLE(c.BV(0, 64), size))
		it.Assume(c.SLE(size, c.BV(uint64(4*maxTotal), 64)))
		ct := it.call(findPkgFunc(it.prog, tpkg, "chunkTotal"), []Value{size, cs}, nil).(*Term)
		it.Assume(c.Eq(ct, c.BV(uint64(total), 32)))

		stateT := it.namedType(tpkg, "sendFileState")
		itemT := it.namedType("pkg/manifest", "FileItem")
		item := it.structVal(itemT, map[string]Value{"RelPath": it.constString("f"), "Size": size, "ID": it.constString("id")})
		statePtr, stateCell := it.newStruct(stateT, map[string]Value{"item": item, "filePath": it.constString("/src/f"), "chunkSize": cs, "totalChunks": c.BV(uint64(total), 32)})

		// the report
		nb := (total + 7) / 8
		bm := it.InBytes("bitmap", nb)
		if total%8 != 0 {
			it.Assume(c.Eq(c.Lshr(bm[nb-1], c.BV(uint64(total%8), 8)), c.BV(0, 8)))
		}
		V := it.In("lastVerifiedChunk", "u32", 32)
		vhash := it.In("lastVerifiedHash", "u64", 64)
		infoT := it.namedType(tpkg, "FileResumeInfo")
		idChoice := it.Choice("fileID", 2)
		fid := it.constString("id")
		if idChoice == 1 {
			fid = &StrV{}
		}
		tcChoice := it.Choice("totalField", 2)
		tcv := c.BV(uint64(total), 32)
		if tcChoice == 1 {
			tcv = c.BV(0, 32)
		}
		info := it.structVal(infoT, map[string]Value{"FileID": fid, "TotalChunks": tcv, "Bitmap": it.newByteSlice(bm, "bitmap"), "LastVerifiedChunk": V, "LastVerifiedHash": vhash})

		// captured variables
		tail := it.In("resumeVerifyTail", "u32", 32)
		it.Assume(c.ULE(tail, c.BV(3, 32)))
		modes := []string{"last", "none", "all"}
		mode := modes[it.Choice("resumeVerify", 3)]
		algs := []uint64{1, 0}
		alg := algs[it.Choice("hashAlg", 2)]
		ce.Set("state", types.NewPointer(stateT), statePtr)
		ce.Set("chunkSize", types.Typ[types.Uint32], cs)
		ce.Set("hashAlg", types.Typ[types.Uint8], c.BV(alg, 8))
		ce.Set("resumeVerify", types.Typ[types.String], it.constString(mode))
		ce.Set("resumeVerifyTail", types.Typ[types.Uint32], tail)
		optsT := it.namedType(tpkg, "Options")
		ce.Set("opts", optsT, it.zero(optsT))
		errSet := false
		setErrT := apply.FreeVars[indexOfFreeVar(it, apply, "setErr")].Type().(*types.Pointer).Elem()
		ce.Set("setErr", setErrT, &EngineFunc{"setErr", func(it *Interp, a []Value) Value {
			if iv, ok := a[0].(*IfaceV); ok && iv.T != nil {
				errSet = true
			}
			return nil
		}})
		wakeT := apply.FreeVars[indexOfFreeVar(it, apply, "signalWake")].Type().(*types.Pointer).Elem()
		ce.Set("signalWake", wakeT, &EngineFunc{"signalWake", func(it *Interp, a []Value) Value { return nil }})

		res := ce.Call(apply, info)
		if iv, ok := res.(*IfaceV); ok && iv.T != nil {
			it.Cover("plan: report rejected")
			// a rejected report must leave the state without a plan
			it.Assert(c.Bool(it.field(stateCell, "plan").v.(*Ptr).IsNil()), "a rejected resume report installs no plan")
			return
		}
		it.Cover("plan: report applied")
		// the verification goroutine (if any) delivers its verdict
		for _, p := range it.pending {
			if !p.done {
				p.done = true
				it.callValue(p.fnv, p.args, p.call)
			}
		}
		if errSet {
			it.Cover("plan: hash error")
			return
		}
		verifyPending := it.term(it.field(stateCell, "verifyPending").v, "verifyPending")
		it.Assert(c.Not(verifyPending), "verification is decided once the hash goroutine has run")
		resendPending := it.term(it.field(stateCell, "resendPending").v, "resendPending")
		resendChunk := it.term(it.field(stateCell, "resendChunk").v, "resendChunk")

		// drain the schedule with the real method
		next := it.methodOf(types.NewPointer(stateT), "nextChunkToSend")
		mark := it.methodOf(types.NewPointer(stateT), "markChunkDone")
		tryEnd := it.methodOf(types.NewPointer(stateT), "trySendEnd")
		d := make([]int, total)
		ends := 0
		for k := 0; k < 2*total+3; k++ {
			r := it.call(next, []Value{statePtr}, nil).(TupleV)
			ok := it.term(r[2], "ok")
			if !it.branch(ok, "drain") {
				// nextTask: nothing to hand out -> trySendEnd
				if it.branch(it.term(it.call(tryEnd, []Value{statePtr}, nil), "end"), "end") {
					ends++
				}
				break
			}
			idx := it.term(r[0], "idx")
			i := it.concretize(c.ZExt(idx, 64), total+1, "choice idx")
			if i >= total {
				it.Assert(c.False, "handed-out index below the chunk count")
				return
			}
			d[i]++
			if it.branch(it.term(it.call(mark, []Value{statePtr}, nil), "end"), "end") {
				ends++
			}
		}
		it.Cover("plan: schedule drained")

		// ---- oracle -------------------------------------------------------------------------
		N := uint64(total)
		hashUnknown := c.Eq(vhash, c.BV(^uint64(0), 64))
		pop := c.BV(0, 32)
		bit := make([]*Term, total)
		for i := 0; i < total; i++ {
			bit[i] = c.Not(c.Eq(c.BAnd(bm[i/8], c.BV(1<<uint(i%8), 8)), c.BV(0, 8)))
			pop = c.Add(pop, c.Ite(bit[i], c.BV(1, 32), c.BV(0, 32)))
		}
		allComplete := c.ULE(c.BV(N, 32), pop)
		hasV := c.ULT(V, c.BV(N, 32))
		V64, T64 := c.ZExt(V, 64), c.ZExt(tail, 64)
		effTail := c.Ite(c.Eq(tail, c.BV(0, 32)), c.BV(1, 64), T64) // hash unknown: at least one chunk
		for i := 0; i < total; i++ {
			I := c.BV(uint64(i), 64)
			sent := c.Bool(d[i] >= 1)
			isResend := c.And(resendPendingWas(it, resendPending, d, i), c.Eq(resendChunk, c.BV(uint64(i), 32)))
			_ = isResend
			// A1 every chunk the receiver lacks is sent
			it.Assert(c.Implies(c.Not(bit[i]), sent), "a chunk the receiver does not have is sent")
			// A3 the verification tail: chunks within `tail` below the verification point are sent again
			inTail := c.And(hasV, c.Not(allComplete), c.ULE(c.Add(V64, c.BV(1, 64)), c.Add(I, T64)))
			it.Assert(c.Implies(inTail, sent), "chunks inside the verification tail are sent again")
			// A3' receiver could not hash its last chunk: the last max(tail,1) chunks are sent
			inUnknown := c.And(hashUnknown, c.ULE(c.BV(N, 64), c.Add(I, effTail)))
			it.Assert(c.Implies(inUnknown, sent), "with an unknown receiver hash the last chunks are sent again")
			// A4 finished work below the verification point is not requested again
			below := c.And(bit[i], hasV, c.ULT(c.Add(I, T64), c.Add(V64, c.BV(1, 64))), c.Not(inUnknown))
			belowComplete := c.And(bit[i], hasV, allComplete, c.ULE(I, V64), c.Not(inUnknown))
			notResent := c.Not(c.Eq(resendChunk, c.BV(uint64(i), 32)))
			it.Assert(c.Implies(c.And(c.Or(below, belowComplete), notResent), c.Bool(d[i] == 0)), "a chunk reported present below the verification point is not sent")
			// A5 at most once, plus the single verification re-send
			it.Assert(c.Or(c.Bool(d[i] <= 1), c.And(c.Bool(d[i] == 2), c.Eq(resendChunk, c.BV(uint64(i), 32)))), "a chunk is sent at most once plus the single verification re-send")
		}
		// A2 a mismatching verdict causes the verified chunk to be sent
		if alg != 0 && mode != "none" {
			sh := it.ghostTerm("senderHash")
			if sh != nil {
				for i := 0; i < total; i++ {
					need := c.And(hasV, c.Not(hashUnknown), c.Eq(V, c.BV(uint64(i), 32)), c.Not(c.Eq(sh, vhash)))
					it.Assert(c.Implies(need, c.Bool(d[i] >= 1)), "the chunk whose hash differs is sent (again)")
				}
			}
		}
		it.Assert(c.Bool(ends == 1), "draining the schedule ends the file exactly once")
	}
	return j
}

func resendPendingWas(it *Interp, rp *Term, d []int, i int) *Term { return it.ctx.True }

func indexOfFreeVar(it *Interp, fn *ssa.Function, name string) int {
	for i, fv := range fn.FreeVars {
		if fv.Name() == name {
			return i
		}
	}
	it.inconclusive("closure " + fn.Name() + " no longer captures " + name)
	return -1
}

// ghostTerm returns the symbolic input of that name if it was created on this path.
func (it *Interp) ghostTerm(name string) *Term {
	for _, in := range it.inputs {
		if in.Name == name && len(in.Terms) == 1 {
			return in.Terms[0]
		}
	}
	return nil
}
