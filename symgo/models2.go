package main

// time and context models.

import (
	"fmt"
	"go/types"
	"strings"

	"golang.org/x/tools/go/ssa"
)

// time.Time is modelled as its real struct {wall uint64, ext int64, loc *Location} with wall = 0 and
// ext = nanoseconds on a symbolic monotone clock (0 = zero Time). All methods used by the code base are intercepted.

func (it *Interp) timeType() types.Type {
	if t, ok := it.ghost["timeType"].(types.Type); ok {
		return t
	}
	for _, p := range it.prog.AllPackages() {
		if p.Pkg.Path() == "time" {
			t := p.Pkg.Scope().Lookup("Time").Type()
			it.ghostT = t
			return t
		}
	}
	it.inconclusive("package time not loaded")
	return nil
}

func (it *Interp) makeTime(ns *Term) Value {
	var tt types.Type = it.ghostT
	if tt == nil {
		tt = it.timeType()
	}
	return &StructV{typ: tt, fields: []Value{it.ctx.BV(0, 64), ns, &Ptr{}}}
}

func (it *Interp) timeNS(v Value) *Term {
	sv, ok := v.(*StructV)
	if !ok || len(sv.fields) != 3 {
		it.inconclusive("time value of unexpected shape")
	}
	return it.term(sv.fields[1], "time.ext")
}

func (it *Interp) now() *Term {
	if it.job.FixedClock {
		if it.timeNow == nil {
			it.timeNow = it.ctx.BV(1_000_000_000, 64)
		}
		return it.timeNow
	}
	t := it.fresh("now", SBV(64))
	c := it.ctx
	lo := c.BV(1, 64)
	if it.timeNow != nil {
		lo = it.timeNow
	}
	// non-decreasing, positive, far from overflow
	it.assume(c.And(c.SLE(lo, t), c.SLT(t, c.BV(1<<62, 64))))
	it.timeNow = t
	return t
}

func (it *Interp) newTimerChan(label string) *ChanObj {
	it.chanSeq++
	return &ChanObj{cp: 1, id: it.chanSeq, label: label, maybeReady: !it.job.TimersNeverFire || it.job.TimerBudget > 0, readyVal: it.makeTime(it.ctx.BV(1, 64)), elem: it.timeType()}
}

func timeModel(name string) interceptFn {
	switch name {
	case "time.Now":
		return func(it *Interp, fn *ssa.Function, a []Value) Value { return it.makeTime(it.now()) }
	case "time.Since":
		return func(it *Interp, fn *ssa.Function, a []Value) Value { return it.ctx.Sub(it.now(), it.timeNS(a[0])) }
	case "time.Until":
		return func(it *Interp, fn *ssa.Function, a []Value) Value { return it.ctx.Sub(it.timeNS(a[0]), it.now()) }
	case "(time.Time).Sub":
		return func(it *Interp, fn *ssa.Function, a []Value) Value { return it.ctx.Sub(it.timeNS(a[0]), it.timeNS(a[1])) }
	case "(time.Time).Add":
		return func(it *Interp, fn *ssa.Function, a []Value) Value {
			return it.makeTime(it.ctx.Add(it.timeNS(a[0]), it.term(a[1], "d")))
		}
	case "(time.Time).After":
		return func(it *Interp, fn *ssa.Function, a []Value) Value { return it.ctx.SLT(it.timeNS(a[1]), it.timeNS(a[0])) }
	case "(time.Time).Before":
		return func(it *Interp, fn *ssa.Function, a []Value) Value { return it.ctx.SLT(it.timeNS(a[0]), it.timeNS(a[1])) }
	case "(time.Time).Equal":
		return func(it *Interp, fn *ssa.Function, a []Value) Value { return it.ctx.Eq(it.timeNS(a[0]), it.timeNS(a[1])) }
	case "(time.Time).IsZero":
		return func(it *Interp, fn *ssa.Function, a []Value) Value { return it.ctx.Eq(it.timeNS(a[0]), it.ctx.BV(0, 64)) }
	case "(time.Time).Unix":
		return func(it *Interp, fn *ssa.Function, a []Value) Value {
			return it.ctx.SDiv(it.timeNS(a[0]), it.ctx.BV(1_000_000_000, 64))
		}
	case "(time.Time).UnixNano":
		return func(it *Interp, fn *ssa.Function, a []Value) Value { return it.timeNS(a[0]) }
	case "(time.Time).UTC", "(time.Time).Local", "(time.Time).Round", "(time.Time).Truncate":
		return func(it *Interp, fn *ssa.Function, a []Value) Value { return a[0] }
	case "(time.Time).Format", "(time.Time).String":
		return func(it *Interp, fn *ssa.Function, a []Value) Value { return it.constString("<time>") }
	case "time.After":
		return func(it *Interp, fn *ssa.Function, a []Value) Value { return it.newTimerChan("time.After") }
	case "time.Sleep":
		return func(it *Interp, fn *ssa.Function, a []Value) Value { return nil }
	case "time.NewTimer", "time.NewTicker":
		return func(it *Interp, fn *ssa.Function, a []Value) Value {
			// *Timer / *Ticker: struct whose first field C is the channel
			pt := fn.Signature.Results().At(0).Type().(*types.Pointer)
			c := it.newCell(pt.Elem(), it.newObject(name))
			c.kids[0].v = it.newTimerChan(name)
			return &Ptr{c: c}
		}
	case "(*time.Timer).Stop", "(*time.Timer).Reset":
		return func(it *Interp, fn *ssa.Function, a []Value) Value { return it.ctx.True }
	case "(*time.Ticker).Stop", "(*time.Ticker).Reset":
		return func(it *Interp, fn *ssa.Function, a []Value) Value { return nil }
	}
	if name == "(time.Duration).Seconds" {
		// over-approximation: any finite non-negative number of seconds for a non-negative duration, 0 for 0
		// (the exact sec + nsec/1e9 needs 64-bit division by 1e9, which no installed solver decides; DESIGN §9)
		return func(it *Interp, fn *ssa.Function, a []Value) Value {
			d := it.term(a[0], "d")
			c := it.ctx
			secs := it.fresh("seconds", SFP)
			zero := c.FPConst(0)
			it.assume(c.Not(c.fp1(OFPIsNaN, secs)))
			it.assume(c.fpcmp(OFPLE, secs, c.FPConst(1e12)))
			it.assume(c.fpcmp(OFPLE, c.FPConst(-1e12), secs))
			it.assume(c.Implies(c.SLE(c.BV(0, 64), d), c.fpcmp(OFPLE, zero, secs)))
			it.assume(c.Implies(c.SLT(d, c.BV(0, 64)), c.fpcmp(OFPLE, secs, zero)))
			it.assume(c.Implies(c.Eq(d, c.BV(0, 64)), c.fpcmp(OFPEq, secs, zero)))
			return secs
		}
	}
	if strings.HasPrefix(name, "(time.Duration).") || strings.HasPrefix(name, "(time.Month).") || strings.HasPrefix(name, "(time.Weekday).") {
		if strings.HasSuffix(name, ".String") {
			return func(it *Interp, fn *ssa.Function, a []Value) Value { return it.constString("<duration>") }
		}
		return nil // pure arithmetic bodies: interpret
	}
	return func(it *Interp, fn *ssa.Function, a []Value) Value {
		it.inconclusive("unmodelled " + name)
		return nil
	}
}

// ---------------------------------------------------------------------------------------
// context

type CtxObj struct {
	parent    *CtxObj
	cancelled bool
	err       string // "canceled" | "deadline"
	done      *ChanObj
	mayFire   bool // deadline contexts: the timer may have fired at any observation
	external  bool // caller-owned context: may be cancelled at any observation
	label     string
	vals      [][2]Value
	children  []*CtxObj
}

var ctxT types.Type = types.NewNamed(types.NewTypeName(0, nil, "symgo.ctx", nil), types.NewStruct(nil, nil), nil)

func (it *Interp) newCtx(parent *CtxObj, label string) *CtxObj {
	it.chanSeq++
	c := &CtxObj{parent: parent, label: label, done: &ChanObj{cp: 0, id: it.chanSeq, label: "ctx.Done", elem: types.NewStruct(nil, nil)}}
	if parent != nil {
		parent.children = append(parent.children, c)
		if parent.cancelled {
			c.cancelled, c.err, c.done.closed = true, parent.err, true
		}
	}
	return c
}

// ctxCancel cancels c and, like the real context tree, every context derived from it.
func (it *Interp) ctxCancel(c *CtxObj, err string) {
	if !c.cancelled {
		c.cancelled = true
		c.err = err
		if !c.done.closed {
			c.done.closed = true
		}
		for _, ch := range c.children {
			it.ctxCancel(ch, err)
		}
	}
}

// ctxState observes the context: returns whether it is done (propagating from parents, firing
// deadlines / external cancellation by symbolic choice).
func (it *Interp) ctxState(c *CtxObj) bool {
	if c.cancelled {
		return true
	}
	if c.parent != nil && it.ctxState(c.parent) {
		it.ctxCancel(c, c.parent.err)
		return true
	}
	if c.mayFire && (!it.job.TimersNeverFire || it.job.TimerBudget > 0) && it.timerMayFire() {
		if it.branch(it.fresh("ctx_deadline_"+c.label, SBool), "ctxdeadline") {
			it.ctxCancel(c, "deadline")
			return true
		}
	}
	if c.external && !it.job.CancelOnlyIdle {
		if it.branch(it.fresh("ctx_cancel_"+c.label, SBool), "ctxcancel") {
			it.ctxCancel(c, "canceled")
			return true
		}
	}
	return false
}

func (it *Interp) ctxOf(v Value) *CtxObj {
	iv, ok := v.(*IfaceV)
	if !ok || iv.T == nil {
		it.inconclusive("nil or unknown context")
	}
	c, ok := iv.V.(*CtxObj)
	if !ok {
		it.inconclusive("context of foreign type " + typeName(iv.T))
	}
	return c
}

func (it *Interp) ctxMethod(c *CtxObj, name string) Value {
	switch name {
	case "Done":
		return &EngineFunc{"Done", func(it *Interp, a []Value) Value {
			it.ctxState(c)
			return c.done
		}}
	case "Err":
		return &EngineFunc{"Err", func(it *Interp, a []Value) Value {
			if it.ctxState(c) {
				if c.err == "deadline" {
					return it.loadGlobal("context", "DeadlineExceeded")
				}
				return it.loadGlobal("context", "Canceled")
			}
			return &IfaceV{}
		}}
	case "Value":
		return &EngineFunc{"Value", func(it *Interp, a []Value) Value {
			for x := c; x != nil; x = x.parent {
				for _, kv := range x.vals {
					if it.equal(kv[0], a[0]).IsTrue() {
						return kv[1]
					}
				}
			}
			return &IfaceV{}
		}}
	case "Deadline":
		return &EngineFunc{"Deadline", func(it *Interp, a []Value) Value {
			return TupleV{it.makeTime(it.ctx.BV(0, 64)), it.ctx.False}
		}}
	}
	return nil
}

func ctxModel(name string) interceptFn {
	mk := func(it *Interp, c *CtxObj) Value { return &IfaceV{T: ctxT, V: c} }
	switch name {
	case "context.Background", "context.TODO":
		return func(it *Interp, fn *ssa.Function, a []Value) Value { return mk(it, it.newCtx(nil, "bg")) }
	case "context.WithCancel":
		return func(it *Interp, fn *ssa.Function, a []Value) Value {
			c := it.newCtx(it.ctxOf(a[0]), "wc")
			cancel := &EngineFunc{"cancel", func(it *Interp, _ []Value) Value { it.ctxCancel(c, "canceled"); return nil }}
			return TupleV{mk(it, c), cancel}
		}
	case "context.WithTimeout", "context.WithDeadline":
		return func(it *Interp, fn *ssa.Function, a []Value) Value {
			it.names["ctxdl"]++
			c := it.newCtx(it.ctxOf(a[0]), fmt.Sprintf("dl%d", it.names["ctxdl"]))
			c.mayFire = true
			cancel := &EngineFunc{"cancel", func(it *Interp, _ []Value) Value { it.ctxCancel(c, "canceled"); return nil }}
			return TupleV{mk(it, c), cancel}
		}
	case "context.WithValue":
		return func(it *Interp, fn *ssa.Function, a []Value) Value {
			c := it.newCtx(it.ctxOf(a[0]), "wv")
			c.vals = append(c.vals, [2]Value{a[1], a[2]})
			// shares cancellation with the parent
			return mk(it, c)
		}
	case "context.Cause":
		return func(it *Interp, fn *ssa.Function, a []Value) Value {
			c := it.ctxOf(a[0])
			if it.ctxState(c) {
				return it.loadGlobal("context", "Canceled")
			}
			return &IfaceV{}
		}
	case "context.init":
		return nil
	}
	if strings.HasPrefix(name, "(*context.") || strings.HasPrefix(name, "(context.") {
		return nil
	}
	if name == "context.contextName" || name == "context.stringify" {
		return nil
	}
	return func(it *Interp, fn *ssa.Function, a []Value) Value {
		it.inconclusive("unmodelled " + name)
		return nil
	}
}

// harness: vContext(name string, cancellable bool) context.Context
func hContext(it *Interp, fn *ssa.Function, a []Value) Value {
	name, _ := a[0].(*StrV).concrete()
	c := it.newCtx(nil, name)
	b := it.term(a[1], "cancellable")
	c.external = it.branch(b, "cancellable context")
	if c.external {
		it.externalCtxs = append(it.externalCtxs, c)
	}
	return &IfaceV{T: ctxT, V: c}
}

func init() {
	harnessAPI["vContext"] = hContext
}

