package main

// Property registrations: which harnesses (obligations) decide which property, with bounds per tier.

import (
	"fmt"
	"go/types"
	"os"
	"strings"

	"golang.org/x/tools/go/ssa"
)

func hj(id, entry, desc string) *Job {
	return &Job{ID: id, Pkg: "internal/transfer", Entry: entry, Desc: desc}
}

func hjp(pkg, id, entry, desc string) *Job {
	return &Job{ID: id, Pkg: pkg, Entry: entry, Desc: desc}
}

func init() {
	register(&PropCheck{
		ID:      "C19",
		PkgDirs: []string{"internal/transfer"},
		Level:   "other",
		Explanation: "Symbolic execution of chunkTotal, chunkSizeForIndex and CreateSidecar from their go/ssa form with fileSize (int64), chunkSize (uint32) and chunk index (uint32) as solver variables; " +
			"tiling, offset and count-agreement assertions are decided by z3 5.1.0 in an exact Int-with-explicit-wrap encoding of the machine arithmetic (no loop in the units, so the only bound is the property's own domain: size <= 10 TiB, count < 2^32). " +
			"unsat = holds for every value in the domain; sat = concrete (size, chunk) pair, replayed natively.",
		Rule:        "one obligation per harness; assertion sites are the vAssert lines of H_C19_*",
		Assumptions: []string{"fileSize in [0, 10 TiB], chunkSize in [1, 2^32-1], ceil(size/chunk) <= 2^32-1 (the property's domain)", "sidecar agreement: bitmap allocation case-split up to the modelled allocation bound; larger counts rely on the count expression being the same term (hash-consed identity is reported as folded)"},
		Trusted:     []string{"Int-with-wrap encoding of bvadd/bvmul/bvsdiv (DESIGN §2.4); the bit-vector encoding of the same query does not terminate on any installed solver (DESIGN §9)"},
		Bounds: func(tier string) string {
			return "all int64 sizes 0..10 TiB x all uint32 chunk sizes >= 1 x all uint32 indices below the count; no loop unrolling involved"
		},
		Jobs: func(tier string, prog *ssa.Program) []*Job {
			a := hj("C19.tiling", "H_C19_tiling", "chunkTotal/chunkSizeForIndex tile the file exactly")
			a.IntMode = true
			b := hj("C19.sidecar-count", "H_C19_sidecar_count", "CreateSidecar agrees with chunkTotal on the chunk count")
			b.IntMode = true
			b.MaxSymAlloc = 4
			if tier == "thorough" {
				b.MaxSymAlloc = 16
			}
			return []*Job{a, b}
		},
		Extra: func(tier string, ld *Loaded, ev map[string]interface{}) []Finding {
			// offsets are index x chunkSize: nowhere in the package may such a product be formed in 32 bits and widened afterwards
			var out []Finding
			sites := checkWidenedProducts(ld.Prog, "/internal/transfer", ev)
			ev["extra_obligations"] = 1
			if len(sites) == 0 {
				ev["extra_discharged"] = 1
			}
			for _, w := range sites {
				w := w
				out = append(out, Finding{Obligation: "C19.offsets", Kind: "cfg", Msg: "a narrow product is widened after it may have wrapped: " + w[:strings.Index(w, ":")], Replay: func(dir string) (bool, string) {
					os.WriteFile(dir+"/witness.txt", []byte(w+"\n"), 0o644)
					return true, w
				}})
			}
			return out
		},
	})

	register(&PropCheck{
		ID:      "C07",
		PkgDirs: []string{"internal/transfer"},
		Level:   "other",
		Explanation: "The real RecvManifestMultiStream (and the legacy receiver in the thorough tier) is executed symbolically from its entry against a scripted connection: the control stream carries a manifest whose root, directory entry path, file entry path (with the matching FileBegin record written without sender-side validation) and item id are symbolic strings of up to 4 (quick) bytes over the full byte alphabet, in both root-directory modes, resume on and off. filepath.Join/Clean/Dir/FromSlash run from the standard library's own SSA; the filesystem is the effect-log model. After the run every mutating effect (mkdir of a new directory, create, write, truncate, rename, remove) must have a cleaned path equal to the output directory or below it - a solver-decided prefix condition over the symbolic path bytes. A second obligation is the validator lemma: any path accepted by validateRelPath stays inside the base directory once joined. Counterexamples replay natively: the same harness runs the real receiver in a temp directory and lists what appeared outside the output directory.",
		Rule:        "assertion sites: vAssert lines of H_C07_*",
		Assumptions: []string{"hostile strings up to 4 bytes (5 for the validator lemma); longer escapes rely on the same code paths", "symlinks already present inside the output directory and Windows path rules are outside", "JSON codec opaque in the engine (real natively)", "internal/app's hasResumeData/clearResumeData (offer RootName) are not covered by this check"},
		Bounds:      func(tier string) string { return "root <= 3 bytes, directory/file path and item id <= 4 bytes, all 256 byte values; validator lemma for paths <= 5 bytes" },
		Jobs: func(tier string, prog *ssa.Program) []*Job {
			js := []*Job{hj("C07.validator", "H_C07_validator", "validated paths stay inside"), hj("C07.receiver", "H_C07_receiver", "hostile manifest fields through the real receiver")}
			if tier == "thorough" {
				js = append(js, hj("C07.receiver-legacy", "H_C07_receiver_legacy", "hostile manifest fields through the legacy receiver"))
			}
			for _, j := range js[1:] {
				j.GoInlineCalls = []string{"readControlMessage", "io.ReadFull", "WriteAt"}
				j.TimersNeverFire = true
				j.BlockedOK = true
				j.Workers = 12
			}
			return js
		},
	})

	register(&PropCheck{
		ID:      "C08",
		PkgDirs: []string{"internal/app"},
		Level:   "other",
		Explanation: "authAsSender, authAsReceiver, deriveAuthKey, computeAuthMac, read/writeAuthMessage and read/writeWithContext are executed symbolically with HMAC-SHA256 as an uninterpreted injective function (injectivity instantiated on every pair of applications of a path), the TLS exporter output an arbitrary 32-byte value per session and the peer's message 50 (or 49, 48) arbitrary bytes. The solver decides: the honest side accepts iff the message is exactly (version, expected role, n, H(key, version|role|n)) for its own key; a proof for another join code or another TLS session, a reflection of the side's own proof, any altered or truncated message is rejected; the responder writes nothing before it has verified. " +
			"Order: for runICEQUICTransfer, dialExtraConns, (*snapshotReceiver).runTransfer and acceptExtraConns an SMT reachability query over the SSA control-flow graph (auth-success edges removed, sources = entry and loop headers) shows no path to SendManifestMultiStream / RecvManifestMultiStream / the dumb-transfer calls / NewMultiConn / the append of an extra connection.",
		Rule:        "assertion sites: vAssert lines of H_C08_* plus one CFG obligation per function",
		Assumptions: []string{"HMAC-SHA256 is injective/unforgeable (uninterpreted function with injectivity axioms); the TLS exporter value is unique per session", "one-shot goroutines of read/writeWithContext run to completion when spawned; the caller's context is not cancelled", "CFG obligation is per function and flow-insensitive in the connection value (any successful authenticateTransport edge counts)"},
		Bounds:      func(tier string) string { return "messages of 48..50 arbitrary bytes, join codes of 8 arbitrary bytes, exporter values of 32 arbitrary bytes; CFGs of four functions" },
		Jobs: func(tier string, prog *ssa.Program) []*Job {
			var js []*Job
			for _, h := range [][2]string{{"receiver", "the receiver accepts iff exact proof"}, {"sender", "the sender accepts iff exact proof"}, {"reflection", "reflected proof rejected"}, {"foreign", "proof for another code/session rejected"}, {"agree", "honest ends agree"}} {
				j := hjp("internal/app", "C08."+h[0], "H_C08_"+h[0], h[1])
				j.GoInline = func(string) bool { return true }
				js = append(js, j)
			}
			return js
		},
		Extra: func(tier string, ld *Loaded, ev map[string]interface{}) []Finding {
			app := "(*" + repoModule + "/internal/app."
			tgt := []string{"transfer.SendManifestMultiStream", "transfer.RecvManifestMultiStream", "app.sendDumbData", "app.sendDumbDataMulti", "app.recvDumbDiscardMulti", "app.recvDumbDiscard", "transfer.NewMultiConn"}
			specs := []cfgOrderSpec{
				{Fn: app + "SnapshotSender).runICEQUICTransfer", AuthCall: "app.authenticateTransport", Targets: tgt},
				{Fn: app + "snapshotReceiver).runTransfer", AuthCall: "app.authenticateTransport", Targets: tgt},
				{Fn: app + "SnapshotSender).dialExtraConns", AuthCall: "app.authenticateTransport", Targets: tgt, AppendOf: "conns", LoopSources: true},
				{Fn: app + "snapshotReceiver).acceptExtraConns", AuthCall: "app.authenticateTransport", Targets: tgt, AppendOf: "conns", LoopSources: true},
			}
			var fs []Finding
			okN := 0
			for _, sp := range specs {
				ok, inc, wit := checkCFGOrder(ld.Prog, sp, ev)
				switch {
				case ok:
					okN++
				case inc != "":
					fmt.Printf("INCONCLUSIVE property=C08 obligation=C08.order %s\n", inc)
				default:
					w := wit
					fs = append(fs, Finding{Obligation: "C08.order", Kind: "cfg", Msg: sp.Fn, Replay: func(dir string) (bool, string) {
						os.WriteFile(dir+"/witness.txt", []byte(w+"\n"), 0o644)
						return true, w
					}})
				}
			}
			ev["extra_obligations"] = len(specs)
			ev["extra_discharged"] = okN
			return fs
		},
	})

	register(&PropCheck{
		ID:      "C10",
		PkgDirs: []string{"internal/peers", "cmd/thruserv"},
		Level:   "other",
		Explanation: "The signaling hub (Add with last-write-wins replacement, the remove closure, CloseSession, SendTo, Broadcast, BroadcastExcept, List) is executed symbolically as a sequential object: session ids and peer ids of up to three connections and of the addressee are symbolic one-byte strings, so whether two connections share a session, carry the same peer id or replace one another is decided by the solver. Assertions over the per-connection channels: an addressed message is queued exactly on the connection registered for (session, peer); a broadcast on every other current connection of that session and on nothing else; SendTo is false iff the addressee is unknown; per-connection order is preserved without duplication; after remove/CloseSession a peer is neither routable nor listed and empty sessions leave no map entries.",
		Rule:        "assertion sites: vAssert lines of H_C10_*",
		Assumptions: []string{"writer goroutines stay pending (messages observed in the 256-slot channels; a full channel drops by design)", "the 1 s wait for the writer in remove() times out (the timer branch is taken)", "the From overwrite in cmd/thruserv's read loop is checked structurally only (every CFG path from the envelope decode to a routing call passes the store of the connection's peer id into From); the unknown-addressee error path, JSON and WebSocket framing are outside"},
		Bounds:      func(tier string) string { return "<= 3 connections over symbolic 1-byte session and peer ids; 3 messages for the ordering obligation" },
		Jobs: func(tier string, prog *ssa.Program) []*Job {
			var js []*Job
			for _, h := range [][2]string{{"sendto", "addressed delivery"}, {"broadcast", "broadcast delivery"}, {"fifo", "per-connection order"}, {"lifecycle", "routable/listed exactly while connected; no leaks"}} {
				j := hjp("internal/peers", "C10."+h[0], "H_C10_"+h[0], h[1])
				j.BlockedOK = true
				js = append(js, j)
			}
			return js
		},
		Extra: func(tier string, ld *Loaded, ev map[string]interface{}) []Finding {
			// the server's read loop: between decoding an envelope and routing it, From is overwritten with the connection's peer id
			isUnmarshalEnv := func(ins ssa.Instruction) bool {
				c, ok := ins.(*ssa.Call)
				if !ok || calleeName(&c.Call) != "encoding/json.Unmarshal" || len(c.Call.Args) != 2 {
					return false
				}
				mi, ok := c.Call.Args[1].(*ssa.MakeInterface)
				return ok && strings.HasSuffix(mi.X.Type().String(), "protocol.Envelope")
			}
			isFromStore := func(ins ssa.Instruction) bool {
				st, ok := ins.(*ssa.Store)
				if !ok {
					return false
				}
				fa, ok := st.Addr.(*ssa.FieldAddr)
				if !ok {
					return false
				}
				stt, ok := fa.X.Type().Underlying().(*types.Pointer).Elem().Underlying().(*types.Struct)
				if !ok || stt.Field(fa.Field).Name() != "From" {
					return false
				}
				// the stored value must be the peer id taken from the connection's query, not something read from the message
				return strings.Contains(strings.ToLower(st.Val.Name()+" "+valueComment(st.Val)+" "+st.Val.String()), "peerid") || debugName(st.Val) == "peerID"
			}
			isRoute := func(ins ssa.Instruction) bool {
				c, ok := ins.(*ssa.Call)
				if !ok {
					return false
				}
				n := calleeName(&c.Call)
				return strings.HasSuffix(n, "peers.Hub).SendTo") || strings.HasSuffix(n, "peers.Hub).BroadcastExcept") || strings.HasSuffix(n, "peers.Hub).Broadcast")
			}
			var out []Finding
			discharged := 0
			ok, inc, wit := checkMustPass(ld.Prog, repoModule+"/cmd/thruserv.handleWebSocket", isUnmarshalEnv, isFromStore, isRoute, ev, "cfg:handleWebSocket from-overwrite")
			if ok {
				discharged++
			} else if inc != "" {
				fmt.Printf("INCONCLUSIVE property=C10 obligation=C10.from %s\n", inc)
			} else {
				w := wit
				out = append(out, Finding{Obligation: "C10.from", Kind: "cfg", Msg: "an envelope can be routed without its From field being overwritten by the connection's peer id", Replay: func(dir string) (bool, string) {
					os.WriteFile(dir+"/witness.txt", []byte(w+"\n"), 0o644)
					return true, w
				}})
			}
			// one routing call per message: between two routing calls of the read loop lies a ReadMessage (no duplicate
			// delivery, and the peer-not-found report is not a second routing call)
			isRead := func(ins ssa.Instruction) bool {
				c, ok := ins.(*ssa.Call)
				return ok && strings.HasSuffix(calleeName(&c.Call), "websocket.Conn).ReadMessage")
			}
			isMsgRoute := func(ins ssa.Instruction) bool {
				c, ok := ins.(*ssa.Call)
				if !ok {
					return false
				}
				n := calleeName(&c.Call)
				return strings.HasSuffix(n, "peers.Hub).SendTo") || strings.HasSuffix(n, "peers.Hub).BroadcastExcept")
			}
			// a report sent back to the author through the hub (SendTo addressed to the connection's own peer id) is
			// not a second delivery of the message
			isRouteToOthers := func(ins ssa.Instruction) bool {
				if !isRoute(ins) {
					return false
				}
				c := ins.(*ssa.Call)
				if strings.HasSuffix(calleeName(&c.Call), "peers.Hub).SendTo") && len(c.Call.Args) > 2 {
					if u, ok := c.Call.Args[2].(*ssa.UnOp); ok && (strings.Contains(valueComment(u.X), "peerID") || debugName(u) == "peerID" || strings.Contains(u.X.Name()+u.X.String(), "peerID")) {
						return false
					}
				}
				return true
			}
			ok2, inc2, wit2 := checkMustPassAfter(ld.Prog, repoModule+"/cmd/thruserv.handleWebSocket", isMsgRoute, isRead, isRouteToOthers, ev, "cfg:handleWebSocket one-route-per-message")
			if ok2 {
				discharged++
			} else if inc2 != "" {
				fmt.Printf("INCONCLUSIVE property=C10 obligation=C10.once %s\n", inc2)
			} else {
				w := wit2
				out = append(out, Finding{Obligation: "C10.once", Kind: "cfg", Msg: "after routing a message the read loop can reach another routing call without reading the next message", Replay: func(dir string) (bool, string) {
					os.WriteFile(dir+"/witness.txt", []byte(w+"\n"), 0o644)
					return true, w
				}})
			}
			// every hub call of the handler names the session the connection joined, and the broadcast excepts the connection's own peer id
			msg, inc3 := checkHubArgs(ld.Prog, repoModule+"/cmd/thruserv.handleWebSocket", ev)
			if inc3 != "" {
				fmt.Printf("INCONCLUSIVE property=C10 obligation=C10.args %s\n", inc3)
			} else if msg == "" {
				discharged++
			} else {
				w := msg
				out = append(out, Finding{Obligation: "C10.args", Kind: "cfg", Msg: "a hub call of the handler does not use the connection's own session / peer id", Replay: func(dir string) (bool, string) {
					os.WriteFile(dir+"/witness.txt", []byte(w+"\n"), 0o644)
					return true, w
				}})
			}
			ev["extra_obligations"] = 3
			ev["extra_discharged"] = discharged
			return out
		},
	})

	register(&PropCheck{
		ID:      "C11",
		PkgDirs: []string{"internal/peers"},
		Level:   "model_checking",
		Explanation: "Context-bounded symbolic scheduling of the real hub code: on a hub with two connected peers, one of Broadcast / BroadcastExcept / SendTo runs as a goroutine concurrently with one of remove / Add replacing the same peer id / CloseSession; the writer goroutines started by Add are threads too. Every goroutine is a symbolic thread of the interpreter; before each lock, unlock and channel operation the scheduler may preempt the running thread in favour of any runnable one, up to P preemptions per path (P = 2 quick, 3 thorough); at blocking points the first-created runnable thread continues. Violations: a Go panic in any thread (send on / close of a closed channel, nil map), a state in which every thread is blocked, and at quiescence: an uninvolved connected peer is routable, a peer that left is not, a closed session lists nobody.",
		Rule:        "states = schedules explored (paths), transitions = SSA instructions executed; assertion sites: vAssert lines of vC11Once plus the no-panic/no-deadlock obligation per path",
		Assumptions: []string{"the hub code is data-race free between visible operations (lock-protected map accesses are not scheduling points)", "two operations, two peers, one session; P preemptions; non-preemptive switches follow thread creation order", "timers never fire (remove waits for the writer to finish)"},
		Bounds:      func(tier string) string { return "3 x 3 operation pairs, 2 peers, preemption bound 2 (quick) / 3 (thorough)" },
		Jobs: func(tier string, prog *ssa.Program) []*Job {
			j := hjp("internal/peers", "C11.hub", "H_C11_hub", "two concurrent hub operations under bounded preemption")
			j.Threads = true
			j.CanonicalBlock = true
			j.TimersNeverFire = true
			j.Preempt = 2
			if tier == "thorough" {
				j.Preempt = 3
			}
			j.Workers = 16
			j.MaxPaths = 5000000
			j.ReplayInstr = []SrcInsert{{File: "internal/peers/hub.go", Anchor: "h.mu.RUnlock()", Text: "\tvHubYield()", All: true}}
			l := hjp("internal/peers", "C11.lastleave", "H_C11_lastleave", "the last peer leaves while another joins the session")
			l.Threads = true
			l.CanonicalBlock = true
			l.TimersNeverFire = true
			l.Preempt = j.Preempt
			l.Workers = 16
			l.ReplayInstr = []SrcInsert{{File: "internal/peers/hub.go", Anchor: "h.mu.Unlock()", Text: "\tvHubYield()", All: true}}
			cj := hjp("internal/peers", "C11.closejoin", "H_C11_closejoin", "the only peer leaves while the session is closed and re-opened by a new peer")
			cj.Threads, cj.CanonicalBlock, cj.TimersNeverFire, cj.Preempt, cj.Workers = true, true, true, j.Preempt, 16
			cj.ReplayInstr = l.ReplayInstr
			return []*Job{j, l, cj}
		},
	})

	register(&PropCheck{
		ID:      "C12",
		PkgDirs: []string{"internal/app"},
		Level:   "model_checking",
		Explanation: "Bounded model checking of the snapshot sender's admission state machine: the repository's own handlePeerJoined, handleManifestAccept, maybeStartTransfers, handlePeerLeft, runTransfer, cleanup, enqueueLocked and collectQueuedUpdatesLocked are executed from go/ssa for every history of join/accept/leave/transfer-end(ok|error)/idle-tick events over 2 (quick) or 3 receivers, for max-receivers 1 and 2. `go s.runTransfer` is a pending task run at its end event; the transfer result is a solver variable, the event choice a forked decision. After every event ghost state asserts: slots and running transfers <= max-receivers, queue duplicate-free and exactly the QUEUED receivers in arrival order, slot <=> TRANSFERRING <=> a running task, no free slot with a waiting receiver, a receiver that left neither queued nor holding a slot.",
		Rule:        "states = paths (event histories), transitions = SSA instructions executed; assertion sites: vAssert lines of vC12.check",
		Assumptions: []string{"conn == nil: messages to peers are not sent (as in the repository's own newTestSender)", "a cancelled transfer (receiver left) is not counted as running but its completion is still an event", "map iteration order = insertion order"},
		Bounds: func(tier string) string {
			if tier == "thorough" {
				return "3 receivers, 6 events (H_C12_three) and 8 events (H_C12_deep), max-receivers in {1,2}"
			}
			return "3 receivers, 5 events, max-receivers in {1,2}"
		},
		Jobs: func(tier string, prog *ssa.Program) []*Job {
			js := []*Job{hjp("internal/app", "C12.three5", "H_C12_three5", "3 receivers, 5 events")}
			if tier == "thorough" {
				js = append(js, hjp("internal/app", "C12.three", "H_C12_three", "3 receivers, 6 events"))
			}
			for _, j := range js {
				j.Workers = 16
				j.MaxPaths = 20000000
				j.FixedClock = false
			}
			return js
		},
	})

	register(&PropCheck{
		ID:      "C13",
		PkgDirs: []string{"internal/app"},
		Level:   "other",
		Explanation: "Path-list kernel of the manifest: manifest.ScanPaths and the sender's buildPathResolver are executed symbolically on three plain files whose base names are symbolic byte strings (lengths 1,1,1|3 quick; 1-3 thorough) over a filesystem model; filepath.Abs/Base/ToSlash run from the standard library's SSA, sort.Slice is modelled with the real less function. Asserted: every file listed once, relative paths pairwise distinct and sorted, counts and totals add up, each source file is the resolution of exactly one item of the same size, a second scan yields the same manifest.",
		Rule:        "assertion sites: vAssert lines of vC13Paths",
		Assumptions: []string{"plain files plus one small concrete directory tree (filepath.WalkDir modelled over the filesystem model: pre-order, lexical order per directory); symlinks, devices, unicode normalisation and mtime changes are outside this check", "names contain no '/' and no NUL and are not '.' or '..'", "item ids (FNV of a formatted string) are not compared"},
		Bounds:      func(tier string) string { return "3 paths, base names of 1..3 arbitrary bytes" },
		Jobs: func(tier string, prog *ssa.Program) []*Job {
			j := hjp("internal/app", "C13.paths", "H_C13_paths", "ScanPaths vs buildPathResolver on symbolic base names")
			if tier == "thorough" {
				j = hjp("internal/app", "C13.paths", "H_C13_paths_deep", "ScanPaths vs buildPathResolver on symbolic base names (lengths 1-3)")
			}
			j.Workers = 16
			d := hjp("internal/app", "C13.dir", "H_C13_dir", "a shared directory with a sub-directory and a sibling whose name extends the sub-directory's")
			lk := hjp("internal/app", "C13.links", "H_C13_links", "a shared directory containing a symbolic link to a file (and optionally a dangling one)")
			return []*Job{j, d, lk}
		},
	})

	register(&PropCheck{
		ID:      "C14",
		PkgDirs: []string{"internal/session", "cmd/thruserv"},
		Level:   "other",
		Explanation: "session.Store (Create/GetByJoinCode/Delete/Count) is executed symbolically for every history of 4 (quick) / 5 (thorough) operations over up to 3 sessions with crypto/rand as symbolic bytes and time.Now as a symbolic non-decreasing clock: live join codes pairwise distinct, lookup succeeds exactly from creation until deletion or expiry, never afterwards, ttl 0 never expires. connLimiter and tokenBucket (cmd/thruserv) are checked by one-step induction from an arbitrary state satisfying the representation invariant (0 <= inUse <= limit, 0 <= tokens <= burst) with float64 as SMT floating point. C14.release-once: over the CFG of cmd/thruserv.handleWebSocket (SMT reachability query) no path leaves one call/defer of (*connLimiter).Release and reaches another without an Acquire in between, and every path from the success edge of Acquire to a return calls or defers Release, so the balanced-caller premise of the limiter induction holds for its only caller.",
		Rule:        "assertion sites: vAssert lines of H_C14_*",
		Assumptions: []string{"fresh 128-bit session ids do not collide (generateSessionID stubbed to distinct ids)", "Duration.Seconds over-approximated: any finite seconds >= 0 for a non-negative duration, 0 for 0", "the check-then-act sequences of the HTTP/WebSocket handlers under concurrent arrivals are outside (closures over net/http); of the handlers only the Acquire/Release pairing of handleWebSocket is decided, flow-insensitively in path feasibility (every CFG path counts)", "connLimiter counter far below 2^63"},
		Bounds: func(tier string) string { return "store histories of 4 (quick) / 5 (thorough) operations, <= 3 sessions; limiter steps from arbitrary valid states" },
		Jobs: func(tier string, prog *ssa.Program) []*Job {
			st := hjp("internal/session", "C14.store", "H_C14_store", "store histories")
			if tier == "thorough" {
				st = hjp("internal/session", "C14.store", "H_C14_store_deep", "store histories (5 operations)")
			}
			idn := 0
			st.Stubs = map[string]interceptFn{repoModule + "/internal/session.generateSessionID": func(it *Interp, fn *ssa.Function, a []Value) Value {
				it.names["sessid"]++
				_ = idn
				return it.constString(fmt.Sprintf("id%030d", it.names["sessid"]))
			}}
			// generateJoinCode: 8 arbitrary bytes (its alphabet mapping is irrelevant to the store's bookkeeping and
			// turns every code comparison into 8 nested 32-way ite chains)
			st.Stubs[repoModule+"/internal/session.generateJoinCode"] = func(it *Interp, fn *ssa.Function, a []Value) Value {
				// recorded as inputs joincode<k> so that the native replay can script crypto/rand with them:
				// each byte is an index into the 32-letter alphabet (injective, as chars[b%32] is on 0..31)
				it.names["joincode"]++
				b := it.InBytes(fmt.Sprintf("joincode%d", it.names["joincode"]), 8)
				for i := range b {
					it.Assume(it.ctx.ULT(b[i], it.ctx.BV(32, 8)))
				}
				return &StrV{b}
			}
			st.NoDiff = true // passing paths depend on the symbolic clock (expiry), which a native run cannot be given; counterexamples are replayed as usual
			st.Unwind = 4
			st.UnwindIsBound = true
			st.Workers = 12
			cl := hjp("cmd/thruserv", "C14.connlimiter", "H_C14_connlimiter", "connLimiter one-step induction")
			tb := hjp("cmd/thruserv", "C14.bucket", "H_C14_bucket", "tokenBucket one-step induction (floating point)")
			tb.OneShot = true
			tb.FixedClock = true
			tb.TimeoutMs = 120000
			bb := hjp("cmd/thruserv", "C14.bucket-burst", "H_C14_bucket_burst", "burst admissions with a fixed clock")
			bb.FixedClock = true
			return []*Job{st, cl, tb, bb}
		},
		Extra: func(tier string, ld *Loaded, ev map[string]interface{}) []Finding {
			// C14.release-once: the connLimiter induction above shows Acquire/Release keep 0 <= inUse <= limit for
			// balanced callers; the caller is handleWebSocket. Over its CFG: no path leaves one registration or call
			// of (*connLimiter).Release and reaches another one without an Acquire in between (a slot handed back
			// twice lets one more connection in than the limit).
			relOrAcq := func(suffix string) func(ssa.Instruction) bool {
				return func(ins ssa.Instruction) bool {
					var cc *ssa.CallCommon
					switch x := ins.(type) {
					case *ssa.Call:
						cc = &x.Call
					case *ssa.Defer:
						cc = &x.Call
					case *ssa.Go:
						cc = &x.Call
					}
					return cc != nil && strings.HasSuffix(calleeName(cc), suffix)
				}
			}
			isRelease := relOrAcq("thruserv.connLimiter).Release")
			isAcquire := relOrAcq("thruserv.connLimiter).Acquire")
			fnName := repoModule + "/cmd/thruserv.handleWebSocket"
			ev["extra_obligations"] = 1
			ev["extra_discharged"] = 0
			// releases hidden in closures of the handler are a shape this obligation does not decide
			if fn := findFuncByString(ld.Prog, fnName); fn != nil {
				for _, af := range fn.AnonFuncs {
					for _, b := range af.Blocks {
						for _, ins := range b.Instrs {
							if isRelease(ins) {
								fmt.Printf("INCONCLUSIVE property=C14 obligation=C14.release-once Release is called inside closure %s of handleWebSocket\n", af.Name())
								return nil
							}
						}
					}
				}
			}
			ok, inc, _ := checkMustPassAfter(ld.Prog, fnName, isRelease, isAcquire, isRelease, ev, "cfg:handleWebSocket release-once")
			if ok {
				ev["extra_discharged"] = 1
				// leak direction: every path from the success edge of Acquire to a return calls or defers Release
				ev["extra_obligations"] = 2
				ok2, inc2, wit2 := checkReleaseAfterAcquire(ld.Prog, fnName, isAcquire, isRelease, ev, "cfg:handleWebSocket release-after-acquire")
				if ok2 {
					ev["extra_discharged"] = 2
					return nil
				}
				if inc2 != "" {
					fmt.Printf("INCONCLUSIVE property=C14 obligation=C14.release-after-acquire %s\n", inc2)
					return nil
				}
				w2 := wit2
				return []Finding{{Obligation: "C14.release-after-acquire", Kind: "cfg", Msg: "a connection slot acquired in handleWebSocket is not released on some path (the limit is reached with fewer live connections than configured)", Replay: func(dir string) (bool, string) {
					os.WriteFile(dir+"/witness.txt", []byte(w2+"\n"), 0o644)
					return true, w2
				}}}
			}
			if inc != "" {
				fmt.Printf("INCONCLUSIVE property=C14 obligation=C14.release-once %s\n", inc)
				return nil
			}
			w := fnName + ": a path leaves one call/defer of (*connLimiter).Release and reaches a second one without an Acquire in between (the slot is handed back twice)"
			return []Finding{{Obligation: "C14.release-once", Kind: "cfg", Msg: "a connection slot can be released twice for one Acquire in handleWebSocket", Replay: func(dir string) (bool, string) {
				os.WriteFile(dir+"/witness.txt", []byte(w+"\n"), 0o644)
				return true, w
			}}}
		},
	})

	register(&PropCheck{
		ID:      "C15",
		PkgDirs: []string{"internal/transfer"},
		Level:   "other",
		Explanation: "Every control-stream decoder (readControlMessage and the nine read* it dispatches to, readControlHeader, the legacy RecvManifest/readRelPath and RecvFile headers) is executed symbolically on an input buffer of N fully symbolic bytes behind an in-memory stream that reports EOF at its end; the data-stream side is covered by running the real RecvManifestMultiStream (goroutines as symbolic threads) with arbitrary bytes on the data stream after a FileBegin whose chunk size is 4, 0 or huge. " +
			"Outcomes decided by the solver per path: a Go panic (index, slice, nil, type assertion, divide, negative make) is a violation; a blocked operation is a violation; every make() whose size is a function of input bytes must satisfy bytes <= 64 MiB + 2N for all inputs (sat = concrete hostile message). Counterexamples replay natively (panic, or runtime.MemStats.TotalAlloc delta). C15.frame / C15.frame-stray: one arbitrary frame (any index, length, CRC class; right or unknown key; before or after the file is complete) with one preemption of the main loop at a select: additionally a malformed frame is rejected and success implies a file of the announced length. C15.records: up to 3 (thorough 4) well-formed control records in arbitrary order, then end of stream. C15.sender-control(-silent): the real sender with N arbitrary bytes as the receiver's side of the control stream (canonical schedule): it comes back, and reports success only if the bytes were an acknowledgement of its file.",
		Rule:        "assertion sites: vAssert lines of H_C15_* plus one allocation obligation per make() site whose size depends on input",
		Assumptions: []string{"input length N case-split 0..24 for control records, 0..16 for the headers and legacy record bodies, 0..20 for the legacy file header (both tiers)", "after an input-sized allocation the path is followed for lengths 0..4 (quick) / 0..8 (thorough; 0..4 for the legacy record bodies) elements; longer ones end at the allocation (reported as outside_bound)", "JSON body of the manifest is opaque (Unmarshal: arbitrary outcome)", "the stream returns EOF at the end of the buffer (no stalling peer)"},
		Bounds: func(tier string) string {
			if tier == "thorough" {
				return "N <= 48 input bytes; input-sized allocations followed up to 8 elements"
			}
			return "N <= 24 input bytes; input-sized allocations followed up to 4 elements"
		},
		Jobs: func(tier string, prog *ssa.Program) []*Job {
			js := []*Job{
				hj("C15.control", "H_C15_control", "readControlMessage on arbitrary bytes"),
				hj("C15.header", "H_C15_header", "readControlHeader on arbitrary bytes"),
				hj("C15.relpath", "H_C15_relpath", "legacy readRelPath on arbitrary bytes"),
				hj("C15.recvmanifest", "H_C15_recvmanifest", "legacy RecvManifest header on arbitrary bytes"),
				hj("C15.recvfile", "H_C15_recvfile", "legacy RecvFile header on arbitrary bytes"),
			}
			js[3].CutCalls = []string{"transfer.receiveFileChunksWindowed"}
			body := hj("C15.recvmanifest-body", "H_C15_recvmanifest_body", "legacy RecvManifest records after a well-formed manifest of 0 or 1 items")
			body.CutCalls = []string{"transfer.receiveFileChunksWindowed"}
			body.JSONLens = []int{2}
			js = append(js, body)
			js[3].OnJSONUnmarshal = func(it *Interp, dst *IfaceV) {
				// an accepted manifest body: no item, or one item with a symbolic one-byte path, kind and size
				if it.Choice("jsonItems", 2) == 0 {
					return
				}
				mc := it.resolve(it.ptr(dst.V))
				itemT := it.namedType("pkg/manifest", "FileItem")
				arr := it.newArrayCell(itemT, 1, "json items")
				it.setFields(arr.kids[0], map[string]Value{"RelPath": &StrV{it.InBytes("jsonPath", 1)}, "IsDir": it.In("jsonIsDir", "bool", 0), "Size": it.In("jsonSize", "i64", 64)})
				it.field(mc, "Items").v = &SliceV{arr: arr, off: 0, ln: 1, cp: 1, elem: itemT}
			}
			ds := hj("C15.datastream", "H_C15_datastream", "arbitrary bytes on the data stream of the real receiver (symbolic threads)")
			fr := hj("C15.frame", "H_C15_frame", "one arbitrary frame for the announced file, chunk size 4 or 0, one preemption of the main loop at a select")
			fs := hj("C15.frame-stray", "H_C15_frame_stray", "an arbitrary frame for an unknown key or a late one for the complete file, one preemption at a select")
			if tier == "thorough" {
				fr = hj("C15.frame", "H_C15_frame_deep", "one arbitrary frame for the announced file of 0,1,4,5 bytes, chunk size 4 or 0, resume on/off, one preemption of the main loop at a select")
			}
			rs := hj("C15.records", "H_C15_records", "up to 3 well-formed control records in arbitrary order, then the stream ends")
			if tier == "thorough" {
				rs = hj("C15.records", "H_C15_records_deep", "up to 4 well-formed control records in arbitrary order, then the stream ends")
			}
			for _, j := range []*Job{ds, fr, fs, rs} {
				j.Threads = true
				j.TimersNeverFire = true
				j.EagerCalls = []string{"writeFileDone", "hashFileChunk"}
				j.MaxPaths = 5000000
			}
			fr.Preempt, fs.Preempt = 1, 1
			fr.PreemptAt, fs.PreemptAt = "select", "select"
			sc := hj("C15.sender-control", "H_C15_sender_control", "the real sender with N arbitrary bytes as the receiver's side of the control stream")
			sc.Threads, sc.MaxPaths = true, 5000000
			sc.TimerBudget = 1
			sc.CanonicalBlock = true // one schedule per input class: the subject is what the bytes decode to, schedules are C02.sender's
			sc.Stubs = map[string]interceptFn{repoModule + "/internal/transfer.readAtWithPool": stubReadAtDirect}
			ss := hj("C15.sender-control-silent", "H_C15_sender_control_silent", "as C15.sender-control with a peer that stays silent after the bytes: success only for a real acknowledgement")
			ss.Threads, ss.MaxPaths, ss.TimerBudget, ss.CanonicalBlock, ss.BlockedOK = true, 5000000, 1, true, true
			ss.Stubs = sc.Stubs
			js = append(js, ds, fr, fs, rs, sc, ss)
			for _, j := range js {
				j.AllocLimit = 64<<20 + 2*48
				j.Workers = 6
				if j.Threads {
					j.Workers = 16
					continue
				}
				j.HangIsViolation = true
				j.MaxSteps = 400000
				if tier == "thorough" && j.ID != "C15.recvmanifest-body" {
					j.MaxSymAlloc = 8
				}
			}
			return js
		},
	})

	register(&PropCheck{
		ID:      "C01",
		PkgDirs: []string{"internal/transfer"},
		Level:   "other",
		Explanation: "Kernel obligations of fidelity, decided on the real code. (1) The real RecvManifestMultiStream runs from its entry against a scripted healthy sender that delivers a small tree - a directory, a zero-length file in it and one data file of symbolic content around the chunk boundary - with the frames in either order; the receiver's goroutines (control reader, data reader, main loop) are symbolic threads and every schedule in which they can block and wake is explored; asserted: success, every file confirmed once, the data file byte-for-byte the source, the empty file and the directory present. (2) Frame-level fidelity of the receiver (offset, length, bytes, CRC before write, accounting) is the C05.reader closure unit; chunk geometry is C19; sender dispatch is C17. (3) makeVirtualStreamID is injective for connection index < 256 and stream id < 2^56. End-to-end obligations: the real SendManifestMultiStream and the real RecvManifestMultiStream run against each other inside one symbolic execution over an in-memory connection of the harness (independent buffered streams), all goroutines of both endpoints as symbolic threads under the canonical schedule (C01.endtoend: files of 1,4,5,8 symbolic bytes plus an empty file, resume on/off; C01.endtoend-preempt: additionally every placement of one preemption at a lock, unlock, channel operation or select): both report success and the output holds exactly the source bytes.",
		Rule:        "assertion sites: vAssert lines of H_C01_*",
		Assumptions: []string{"end-to-end obligations: canonical schedule (first-created runnable thread continues at blocking points) plus at most one preemption; timers never fire; the sender's read pool is replaced by the ReadAt it performs; the in-memory connection never blocks a writer", "in-memory scripted connection (no QUIC), one data stream; multi-connection runs only through the stream-id function", "sender byte path: one file, one worker, the read pool replaced by the ReadAt it performs; timers may fire once per path", "composition of these kernels into 'identical tree for every configuration' is a paper step"},
		Bounds:      func(tier string) string { return "data file of 5 bytes (quick) / 1,4,5,8 bytes (thorough), chunk size 4, both frame orders, resume on/off; thorough adds both root-directory modes and both record orders" },
		Jobs: func(tier string, prog *ssa.Program) []*Job {
			tr := hj("C01.tree", "H_C01_tree", "healthy scripted sender, every receiver schedule")
			if tier == "thorough" {
				tr = hj("C01.tree", "H_C01_tree_deep", "healthy scripted sender, every receiver schedule (all sizes and modes)")
			}
			tr.Threads = true
			tr.TimersNeverFire = true
			tr.Workers = 16
			tr.MaxPaths = 5000000
			sb := hj("C01.sender-bytes", "H_C02_sender", "real sender: what goes onto the data stream is the file, chunk by chunk, once")
			sb.Threads, sb.Workers, sb.MaxPaths = true, 16, 5000000
			sb.TimerBudget = 1
			sb.Stubs = map[string]interceptFn{repoModule + "/internal/transfer.readAtWithPool": stubReadAtDirect}
			ee := hj("C01.endtoend", "H_C01_endtoend", "real sender and real receiver against each other over an in-memory connection: files of 1,4,5,8 bytes + an empty file, resume on/off, canonical schedule")
			ep := hj("C01.endtoend-preempt", "H_C01_endtoend_preempt", "as C01.endtoend for 5 bytes, every schedule with one preemption at a lock, unlock, channel operation or select")
			if tier == "thorough" {
				ep = hj("C01.endtoend-preempt", "H_C01_endtoend_preempt_deep", "as C01.endtoend for 4,5,8 bytes, resume on/off, every schedule with one preemption")
			}
			ep.Preempt = 1
			for _, j := range []*Job{ee, ep} {
				j.Threads, j.Workers, j.MaxPaths = true, 16, 5000000
				j.TimersNeverFire = true
				j.CanonicalBlock = true
				j.Stubs = map[string]interceptFn{repoModule + "/internal/transfer.readAtWithPool": stubReadAtDirect}
			}
			js := []*Job{tr, hj("C01.streamid", "H_C01_streamid", "virtual stream ids are injective"), sb, ee, ep}
			if tier == "thorough" {
				pr := hj("C01.tree-preempt", "H_C01_tree", "healthy scripted sender, canonical schedule plus every placement of two preemptions at a select")
				pr.Threads, pr.TimersNeverFire, pr.Workers, pr.MaxPaths = true, true, 16, 5000000
				pr.Preempt, pr.PreemptAt, pr.CanonicalBlock = 2, "select", true
				js = append(js, pr)
			}
			return js
		},
	})

	register(&PropCheck{
		ID:      "C02",
		PkgDirs: []string{"internal/transfer"},
		Level:   "other",
		Explanation: "Safety part of 'no false success' on the receiver: the real RecvManifestMultiStream runs from its entry against a scripted sender whose every chunk frame is good, carries a wrong CRC field, a payload corrupted in flight, is missing, or is cut short, and whose control stream ends after FileBegin, after FileEnd or after End. Goroutines are symbolic threads; every order in which the main select can observe End, control EOF, data errors and completion signals is explored. Asserted: a nil error implies the output file exists with the announced size, equals the source byte for byte, and no file was declared failed; and no schedule leaves every goroutine blocked (a hang after the input has ended). CRC-before-write and no-mark-on-failure at frame level are the C05.reader obligations. Natively the harness repeats the scenario up to 400 times because Go chooses among ready select cases at random. End-to-end obligations: the real SendManifestMultiStream and the real RecvManifestMultiStream run against each other inside one symbolic execution over an in-memory connection of the harness (independent buffered streams), all goroutines of both endpoints as symbolic threads under the canonical schedule: C02.endtoend-lost - the connection is lost at the n-th write (n < 24) of the control stream in either direction or of the data stream, between two writes or inside one, bytes in flight delivered or dropped, as an error or as a clean end of stream; C02.endtoend-cancel - either caller cancels its context at any observation or while everybody waits (an endpoint that returned an error closes the connection, as the application does). Every side comes back, and a side that reports success implies the complete identical file. C02.obstructed: output path taken by a directory / parent is a file; C02.sender-source: source file shortened or removed after the scan - failure is reported.",
		Rule:        "assertion sites: vAssert lines of H_C02_receiver plus the no-deadlock obligation per path",
		Assumptions: []string{"end-to-end obligations: canonical schedule; a timer may fire once per path (a stall timeout ends the process: counted as loud failure)", "A-CRC3: the in-flight corruption is one CRC-32C detects (always true for payloads up to 4 bytes, 2^-32 otherwise)", "receiver: timers never fire; sender: a timer may fire once per path, the read pool is replaced by the ReadAt it performs, resume off; streams report EOF at their end (no stalling peer); wall-clock bounds are outside this check", "one file of 2 or 5 bytes (quick) / 1,4,5,8 (thorough), chunk size 4, one data stream"},
		Bounds:      func(tier string) string { return "1-2 chunks, 5 fault kinds per chunk, 3 control endings, resume on/off, all thread schedules at blocking points" },
		Jobs: func(tier string, prog *ssa.Program) []*Job {
			r := hj("C02.receiver", "H_C02_receiver", "faulty scripted sender, every receiver schedule")
			if tier == "thorough" {
				r = hj("C02.receiver", "H_C02_receiver_deep", "faulty scripted sender, every receiver schedule (sizes 1,4,5,8)")
			}
			r.Threads = true
			r.TimersNeverFire = true
			r.Workers = 16
			r.MaxPaths = 5000000
			sn := hj("C02.sender", "H_C02_sender", "real sender against scripted acknowledgements (ok / failed / none), caller may cancel")
			if tier == "thorough" {
				sn = hj("C02.sender", "H_C02_sender_deep", "real sender against scripted acknowledgements (sizes 0,1,4,5,8)")
			}
			sn.Threads, sn.Workers, sn.MaxPaths = true, 16, 5000000
			sn.TimerBudget = 1
			sn.Stubs = map[string]interceptFn{repoModule + "/internal/transfer.readAtWithPool": stubReadAtDirect}
			sc := hj("C02.sender-cancel", "H_C02_sender_cancel", "real sender, silent receiver, caller cancels at any observation or while everybody waits; resume on/off")
			sc.Threads, sc.Workers, sc.MaxPaths = true, 16, 5000000
			sc.TimerBudget = 1
			sc.CanonicalBlock = true
			sc.BlockedOK = true // a silent peer and a caller that never cancels: waiting is the correct behaviour
			sc.Stubs = map[string]interceptFn{repoModule + "/internal/transfer.readAtWithPool": stubReadAtDirect}
			ob := hj("C02.obstructed", "H_C02_obstructed", "healthy sender, output path taken by a directory / parent is a regular file")
			ob.Threads, ob.TimersNeverFire, ob.Workers, ob.MaxPaths = true, true, 16, 5000000
			so := hj("C02.sender-source", "H_C02_sender_source", "real sender whose source file was shortened or removed after the scan")
			so.Threads, so.Workers, so.MaxPaths, so.TimerBudget = true, 16, 5000000, 1
			so.Stubs = map[string]interceptFn{repoModule + "/internal/transfer.readAtWithPool": stubReadAtDirect}
			el := hj("C02.endtoend-lost", "H_C02_endtoend_lost", "real sender and real receiver, connection lost at the n-th write of a stream direction (n < 24), between or inside writes, in-flight bytes delivered or dropped; canonical schedule")
			el.Threads, el.Workers, el.MaxPaths, el.CanonicalBlock = true, 16, 5000000, true
			el.TimerBudget = 1
			el.Stubs = map[string]interceptFn{repoModule + "/internal/transfer.readAtWithPool": stubReadAtDirect}
			ec := hj("C02.endtoend-cancel", "H_C02_endtoend_cancel", "real sender and real receiver, one caller cancels at any observation of its context or while everybody waits; canonical schedule")
			ec.Threads, ec.Workers, ec.MaxPaths, ec.CanonicalBlock = true, 16, 5000000, true
			ec.TimerBudget = 1
			ec.Stubs = map[string]interceptFn{repoModule + "/internal/transfer.readAtWithPool": stubReadAtDirect}
			tf := hj("C02.twofiles", "H_C02_twofiles", "two files, the second never arrives (End / clean end / silence): every blocking-point schedule plus two preemptions before lock operations")
			tf.Threads, tf.Workers, tf.MaxPaths, tf.TimersNeverFire = true, 16, 5000000, true
			tf.Preempt, tf.PreemptAt = 2, "lock"
			tf.EagerCalls = []string{"writeFileDone", "hashFileChunk"}
			tf.ReplayInstr = []SrcInsert{{File: "internal/transfer/multistream.go", Anchor: "if opts.FileDoneFn != nil {", Text: "vFinalizeYield()", All: true, Before: true}}
			tf.CancelOnlyIdle, tf.BlockedOK = true, true // with a silent sender waiting is correct; the caller cancels once everybody waits
			js := []*Job{r, sn, sc, ob, so, el, ec, tf}
			if tier == "thorough" {
				pr := hj("C02.receiver-preempt", "H_C02_receiver", "faulty scripted sender, canonical schedule plus every placement of two preemptions at a select")
				pr.Threads, pr.TimersNeverFire, pr.Workers, pr.MaxPaths = true, true, 16, 5000000
				pr.Preempt, pr.PreemptAt, pr.CanonicalBlock = 2, "select", true
				js = append(js, pr)
			}
			return js
		},
	})

	register(&PropCheck{
		ID:      "C03",
		PkgDirs: []string{"internal/transfer"},
		Level:   "other",
		Explanation: "Partial (no wall-clock liveness, no QUIC): (a) every legal relative path of up to 6 arbitrary bytes (non-empty, not absolute, no '..' segment, no NUL) is accepted by validateRelPath - the sender refuses other names, so rejecting a legal one makes a valid tree untransferable; (b) the real RecvManifestMultiStream runs from its entry as symbolic threads against a scripted sender that resumes a transfer: resume metadata with a symbolic bitmap is on disk, the sender asks for the report, sends what is missing plus a duplicate of a chunk that is already there, possibly after the file is complete; under every schedule at blocking points the call must return success - a state in which every goroutine is blocked (waiting for a stream, message or chunk that will not come) is a violation; (c) the healthy small-tree transfer of C01.tree (directory, zero-length file, fewer chunks than streams) likewise. Scheduler fairness, stream budgets and the blocking accept of announced data streams over QUIC are outside. C03.endtoend: edge tree shapes (empty manifest, directory only, zero-length file only, one 1-byte file on four streams, two files on two streams; resume on/off) between the real sender and the real receiver in one symbolic execution (canonical schedule; thorough: plus one preemption): both come back with success and the tree is the announced one.",
		Rule:        "assertion sites: vAssert lines of H_C03_names, vC04Resume plus the no-deadlock obligation per path",
		Assumptions: []string{"timers never fire; in-memory streams report EOF at their end", "threads that only write acknowledgements or hash a chunk commute with all others and are scheduled eagerly (partial-order reduction)", "marked chunks on disk equal the source (C05)"},
		Bounds:      func(tier string) string { return "names <= 6 bytes; resumed file of 5 bytes in 4-byte chunks, all bitmaps, duplicate of chunk 0 before the missing chunks (quick) / any chunk before or after (thorough)" },
		Jobs: func(tier string, prog *ssa.Program) []*Job {
			n := hj("C03.names", "H_C03_names", "legal names are accepted")
			n.MaxSymAlloc = 8
			n.Workers = 12
			r := hj("C03.resume-duplicates", "H_C04_resume", "resumed transfer with late duplicates completes under every schedule")
			if tier == "thorough" {
				r = hj("C03.resume-duplicates", "H_C04_resume_deep", "resumed transfer with late duplicates completes under every schedule (deep)")
			}
			r.Threads = true
			r.TimersNeverFire = true
			r.EagerCalls = []string{"writeFileDone", "hashFileChunk"}
			r.Workers = 16
			r.MaxPaths = 5000000
			tw := hj("C03.twofiles", "H_C03_twofiles", "two resumed files on one stream, late duplicate between them")
			tw.Threads = true
			tw.TimersNeverFire = true
			tw.EagerCalls = []string{"writeFileDone", "hashFileChunk"}
			tw.Workers = 16
			tw.MaxPaths = 5000000
			ee := hj("C03.endtoend", "H_C03_endtoend", "edge tree shapes between the real sender and the real receiver (canonical schedule; thorough: plus one preemption at a select - there only success and the delivered tree are judged)")
			ee.Threads, ee.Workers, ee.MaxPaths, ee.TimersNeverFire, ee.CanonicalBlock = true, 16, 5000000, true, true
			if tier == "thorough" {
				// with a preemption a wake-up of an idle sender worker can be missed; the real code recovers through
				// its 200 ms poll, which a run without timer events does not model
				ee.Preempt, ee.PreemptAt = 1, "select"
				ee.BlockedOK = true // see above: the poll is not modelled here, all-blocked states are judged in the canonical run only
			}
			ee.Stubs = map[string]interceptFn{repoModule + "/internal/transfer.readAtWithPool": stubReadAtDirect}
			wk := hj("C03.wake", "H_C03_wake", "one frame, one file: every blocking-point schedule plus one preemption before a lock operation (wake-up between lookup and wait)")
			wk.Threads, wk.Workers, wk.MaxPaths, wk.TimersNeverFire = true, 16, 5000000, true
			wk.Preempt, wk.PreemptAt = 2, "lock"
			wk.EagerCalls = []string{"writeFileDone", "hashFileChunk"}
			wk.ReplayInstr = []SrcInsert{{File: "internal/transfer/multistream.go", Anchor: "if !fileReady.wait(recvCtx, fileKey", Text: "\t\t\t\t\tvRecvYield()", Before: true}}
			wk.CancelOnlyIdle, wk.BlockedOK = true, true // the caller cancels once everybody waits; the branch in which it never does is not judged
			return []*Job{n, r, tw, ee, wk}
		},
	})

	register(&PropCheck{
		ID:      "C04",
		PkgDirs: []string{"internal/transfer"},
		Level:   "other",
		Explanation: "Partial: the second run of an interrupted transfer at small scale, plus the sender's plan. (a) The real RecvManifestMultiStream runs from its entry (goroutines as symbolic threads) with resume metadata and a partial file on disk - symbolic bitmap, marked chunks equal to the source as C05 guarantees - against a scripted sender that requests the report and sends exactly the chunks the bitmap does not mark (plus a duplicate): the call succeeds, the file equals the source, and every FileResumeInfo the receiver wrote carries the bitmap found on disk, the file's chunk count and the highest marked chunk as verification point. (b) The sender's real applyResumeInfo closure and nextChunkToSend (C17.plan obligation, re-run here): a chunk is skipped only if reported present below the verification point, every unset chunk is sent, the verification tail and a mismatching hash are re-sent. Every kill point leaving a sound disk state is C05; chains of interrupted runs follow by induction over runs (paper step). (c) C04.endtoend: the second run with both real endpoints - the real sender plans from what the real receiver reports - for every bitmap and an intact, shortened or missing data file; (d) C04.chain: run 1 is interrupted by a connection loss at the n-th write of a stream, run 2 resumes from whatever run 1 left on disk, both runs with both real endpoints: run 2 succeeds on both sides and the file equals the source.",
		Rule:        "assertion sites: vAssert lines of vC04Resume and the engine-side assertions of the plan closure unit",
		Assumptions: []string{"C04.endtoend / C04.chain: canonical schedule, timers never fire / fire once; interruption kind of the chain is connection loss (process kill points are the C05 crash cuts)", "marked chunks on disk equal the source (established by C05)", "timers never fire; threads that only write acknowledgements or hash a chunk are scheduled eagerly", "composition over repeated interruptions is a paper step"},
		Bounds:      func(tier string) string { return "file of 5 bytes, chunk size 4 (end-to-end obligations: 5, 8, 9 bytes in the thorough tier), all bitmaps; plan: <= 3 (quick) / 5 (thorough) chunks" },
		Jobs: func(tier string, prog *ssa.Program) []*Job {
			r := hj("C04.resume", "H_C04_resume", "resumed transfer: report equals disk metadata, result identical")
			if tier == "thorough" {
				r = hj("C04.resume", "H_C04_resume_deep", "resumed transfer (deep)")
			}
			r.Threads = true
			r.TimersNeverFire = true
			r.EagerCalls = []string{"writeFileDone", "hashFileChunk"}
			r.Workers = 16
			r.MaxPaths = 5000000
			pl := jobResumePlan("C04.plan", 3)
			if tier == "thorough" {
				pl = jobResumePlan("C04.plan", 5)
			}
			pl.Workers = 8
			ee := hj("C04.endtoend", "H_C04_endtoend", "second run with both real endpoints: metadata + intact/shortened/missing data file, possibly damaged last marked chunk; canonical schedule")
			if tier == "thorough" {
				ee = hj("C04.endtoend", "H_C04_endtoend_deep", "as quick for files of 5, 8, 9 bytes")
			}
			ee.Threads, ee.Workers, ee.MaxPaths, ee.TimersNeverFire, ee.CanonicalBlock = true, 16, 5000000, true, true
			ee.Stubs = map[string]interceptFn{repoModule + "/internal/transfer.readAtWithPool": stubReadAtDirect}
			ch := hj("C04.chain", "H_C04_chain", "run 1 interrupted by connection loss at the n-th write (n < 12), run 2 resumes: both runs with both real endpoints; canonical schedule")
			if tier == "thorough" {
				ch = hj("C04.chain", "H_C04_chain_deep", "as quick for 5 and 9 bytes, n < 24")
			}
			ch.Threads, ch.Workers, ch.MaxPaths, ch.CanonicalBlock = true, 16, 5000000, true
			ch.TimerBudget = 1
			ch.Stubs = map[string]interceptFn{repoModule + "/internal/transfer.readAtWithPool": stubReadAtDirect}
			et := hj("C04.endtoend-tail", "H_C04_endtoend_tail", "second run with both real endpoints, two data streams, verification tail 1 (duplicates on the other stream), 9-byte file; canonical schedule")
			et.Threads, et.Workers, et.MaxPaths, et.TimersNeverFire, et.CanonicalBlock, et.Preempt = true, 16, 5000000, true, true, 0
			et.Stubs = ee.Stubs
			return []*Job{r, pl, ee, ch, et}
		},
	})

	register(&PropCheck{
		ID:      "C05",
		PkgDirs: []string{"internal/transfer"},
		Level:   "other",
		Explanation: "Closure units of the real code, executed symbolically over a filesystem model with an effect log. (a) One data frame through the per-stream reader closure of RecvManifestMultiStream (found by name in the current SSA; finalizeFile etc. re-materialised over the same captured cells) on a file state with and without resume metadata: chunk index, length, CRC, payload, previous file content, bitmap and remaining counter are solver variables. Asserted: only a complete in-range chunk with matching CRC is written, at index x chunkSize, with exactly the received bytes; the chunk is marked in the resume metadata only after its write returned, never on CRC mismatch, short frame, open or write failure (fault injection); missing + marked = chunk count; completion only when nothing is missing. (c) Sidecar.Flush: the effects are mkdir, create/write of the .tmp file, one rename onto the final path, under the sidecar mutex, dirty kept on failure. (e) For every crash cut of that effect log (temp file written in 8-byte blocks) the final path holds the previous or the new version and the real LoadSidecar is run on it. Codec and torn-prefix rejection are the C06.roundtrip / C06.damage obligations.",
		Rule:        "assertion sites: engine-side assertions of the reader and Flush closure/method units",
		Assumptions: []string{"SIGKILL = cut of the effect log; rename is atomic; page cache vs power loss not modelled", "paper step (DESIGN §5 C05): with several readers and the ticker, each flush snapshot is taken under the mutex and contains only bits set earlier, each bit is set after its own write in program order, so per-thread order plus atomic replacement suffice for every interleaving; the interleavings themselves are not explored", "one-shot goroutines of read/writeWithTimeout run to completion when spawned; timers never fire", "frame invariant: remaining + marked = chunk count; chunk size 4, <= 2 (quick) / 3 (thorough) chunks; sidecars of <= 8 chunks"},
		Bounds:      func(tier string) string { return "reader: <= 2 chunks of 4 bytes (quick), <= 3 (thorough), payload 0..5 bytes present; Flush: sidecars of <= 8 chunks, every cut of the effect log" },
		Jobs: func(tier string, prog *ssa.Program) []*Job {
			n := 2
			if tier == "thorough" {
				n = 3
			}
			return []*Job{jobRecvReader("C05.reader", n, false), jobRecvReader("C05.reader-faults", n, true), jobFlush("C05.flush", 8, false), jobFlush("C05.flush-faults", 8, true)}
		},
	})

	register(&PropCheck{
		ID:      "C06",
		PkgDirs: []string{"internal/transfer"},
		Level:   "other",
		Explanation: "LoadSidecar, BitmapFromBytes, Sidecar.Flush and LoadOrCreateSidecarWithFallback are executed symbolically over a filesystem model: (a) arbitrary file contents of N symbolic bytes: no panic, and acceptance implies magic/version/length/checksum consistency; (b) every single-bit flip and truncation of a Flush output with symbolic fields is rejected; (c) for arbitrary valid sidecars at the primary and fallback path the returned sidecar has the requested identity and chunk count and is empty unless an exact match was loaded. CRC-32C is an uninterpreted function (real value on concrete data). C06.datafile: the real receiver started next to right-identity metadata whose data file is missing, shortened or intact advertises only chunks whose bytes are on disk. C06.repair: second run with both real endpoints where the highest marked chunk is damaged on disk (its CRC differs): the final file must equal the source - on the current tree this fails for an intact data file and is a recorded known finding (the re-sent chunk can arrive after the receiver finalised the file).",
		Rule:        "assertion sites: vAssert lines of H_C06_*",
		Assumptions: []string{"A-CRC1: CRC-32C differs under a single-bit flip of its input (instantiated on the flipped/unflipped pair)", "N <= 40 arbitrary bytes; generated sidecars: id <= 4 bytes, <= 16 chunks (round trip), <= 8 chunks (damage, identity)", "os.ReadFile/WriteFile/Rename/Remove/MkdirAll are the filesystem model of DESIGN §2.3"},
		Bounds: func(tier string) string { return "arbitrary sidecar files up to 40 bytes; flips at every bit and cuts at every byte of sidecars with <= 4-byte ids and <= 8 chunks" },
		Jobs: func(tier string, prog *ssa.Program) []*Job {
			js := []*Job{
				hj("C06.arbitrary", "H_C06_arbitrary", "LoadSidecar on arbitrary bytes"),
				hj("C06.roundtrip", "H_C06_roundtrip", "LoadSidecar(Flush(sc)) == sc"),
				hj("C06.damage", "H_C06_damage", "bit flips and truncations are rejected"),
				hj("C06.identity", "H_C06_identity", "identity and chunk count of the sidecar returned for a file"),
			}
			for _, j := range js {
				j.Workers = 8
				j.MaxSymAlloc = 8
			}
			df := hj("C06.datafile", "H_C06_datafile", "real receiver with resume metadata whose data file is missing / shortened / intact: what it advertises to the sender")
			df.Threads, df.TimersNeverFire, df.Workers, df.MaxPaths = true, true, 16, 5000000
			df.EagerCalls = []string{"writeFileDone", "hashFileChunk"}
			df.Preempt, df.PreemptAt = 1, "select"
			// kill window: when the data file is (re-)created at its full size, metadata that belongs to a lost
			// data file must already be gone - a crash in between would leave a full-size file of zeros next to
			// metadata that claims chunks, and the next run could not tell any more
			df.ReplayInstr = []SrcInsert{{File: "internal/transfer/multistream.go", Anchor: "f, err := os.OpenFile(filePath, os.O_RDWR|os.O_CREATE, 0644)", Text: "vBeforeCreate(filePath)", Before: true}}
			df.OnFSEffect = func(it *Interp, e FSEffect) {
				if e.Kind != "create" && e.Kind != "truncate" {
					return
				}
				p, ok := e.Path.concrete()
				if !ok || !strings.HasSuffix(p, "/out/f") {
					return
				}
				stale := false
				for _, t := range it.tags {
					if t == "missing" || t == "shortened" {
						stale = true
					}
				}
				if !stale {
					return
				}
				for _, n := range it.fs.nodes {
					if np, ok := n.path.concrete(); ok && !n.removed && !n.dir && strings.Contains(np, "/out/.") && strings.HasSuffix(np, ".sbxmap") {
						it.Assert(it.ctx.False, "metadata of a lost data file is removed before the data file is re-created at full size")
						return
					}
				}
			}
			js = append(js, df)
			rp := hj("C06.repair", "H_C06_repair", "second run with both real endpoints where the highest marked chunk is damaged on disk: detected by hash and repaired")
			if tier == "thorough" {
				rp = hj("C06.repair", "H_C06_repair_deep", "as quick for files of 5, 8, 9 bytes")
			}
			rp.Threads, rp.Workers, rp.MaxPaths, rp.TimersNeverFire, rp.CanonicalBlock = true, 16, 5000000, true, true
			rp.Stubs = map[string]interceptFn{repoModule + "/internal/transfer.readAtWithPool": stubReadAtDirect}
			js = append(js, rp)
			return js
		},
	})

	register(&PropCheck{
		ID:      "C17",
		PkgDirs: []string{"internal/transfer"},
		Level:   "model_checking",
		Explanation: "Bounded model checking of the sender's per-file dispatch state machine: the repository's own sendFileState.nextChunkToSend / markChunkDone / trySendEnd (with Bitmap.Get and chunkSizeForIndex) are executed from go/ssa for every sequence of worker steps take(w)/finish(w) interleaved with the arrival of the resume report and of the verification verdict. " +
			"File size, bitmap bytes, forceSendFrom, verified chunk, verifyNeeded and the verdict are solver variables; the schedule is a sequence of forked choices over the enabled events (workers symmetric). Ghost counters assert exactly-once dispatch, no dispatch of reported chunks below the verification point, one extra dispatch of the mismatching chunk, a single FileEnd only when nothing is in flight, verification is decided and no re-send is outstanding, nothing after FileEnd, and progress to FileEnd when idle. C17.sender-end: the whole real sender with two data streams (two workers) and one file of two chunks under the canonical schedule plus one preemption: at the moment the FileEnd record is written to the control stream every chunk of the file is completely on its data stream.",
		Rule:        "states = paths explored (one per schedule x data class), transitions = solver queries; assertion sites: vAssert lines of vC17*",
		Assumptions: []string{"methods are mutex-protected, hence atomic steps (checked by the lock model: a Lock of a held mutex ends the path)", "glue mirrors nextTask / worker loop / applyResumeInfo of SendManifestMultiStream (harness header); a reordering of those call sites is outside what this check sees", "bounds per tier below"},
		Bounds: func(tier string) string {
			if tier == "thorough" {
				return "as quick, plus chunks <= 4 with 3 workers and 10 steps without resume and the plan closure unit up to 5 chunks; chunk size 4, last chunk 1..4 bytes"
			}
			return "chunks <= 3, 2 workers, 8 steps without resume; chunks <= 2, 2 workers, 8 steps with resume report/verdict arrival at every step"
		},
		Jobs: func(tier string, prog *ssa.Program) []*Job {
			js := []*Job{
				hj("C17.plain", "H_C17_plain", "dispatch/FileEnd without resume"),
				hj("C17.resume", "H_C17_resume", "dispatch/FileEnd with resume report and verdict arriving at any step"),
			}
			if tier == "thorough" {
				js = append(js, hj("C17.plain-deep", "H_C17_plain_deep", "4 chunks, 3 workers, 10 steps"))
				// H_C17_resume_mid (3 chunks, 2 workers, 9 steps; 8 minutes alone) keeps its harness but is
				// not registered: together with the whole-sender obligations the tier would not finish within 45 minutes
				// H_C17_resume_deep (4 chunks, 3 workers, 11 steps with report/verdict arrival) does not finish within 15 minutes on 16 cores: not registered
			}
			for _, j := range js {
				j.Workers = 8
				j.MaxPaths = 3000000
			}
			pl := jobResumePlan("C17.plan", 3)
			if tier == "thorough" {
				pl = jobResumePlan("C17.plan", 5)
			}
			pl.Workers = 8
			js = append(js, pl)
			se := hj("C17.sender-end", "H_C17_sender_end", "real sender, one file of two chunks on two data streams (two workers): FileEnd after every chunk is written")
			se.Threads, se.Workers, se.MaxPaths = true, 16, 5000000
			se.TimerBudget = 1
			se.CanonicalBlock, se.Preempt = true, 1
			se.BlockedOK = true // an idle worker polls every 200 ms; with one timer event per path the poll cannot be modelled faithfully. Hangs of the sender are C02's subject
			se.Stubs = map[string]interceptFn{repoModule + "/internal/transfer.readAtWithPool": stubReadAtDirect}
			js = append(js, se)
			fl := hj("C17.files", "H_C17_files", "real sender, three files on two slots: each begun once, ended once, every chunk on a stream once (canonical schedule, one timer event)")
			fl.Threads, fl.Workers, fl.MaxPaths = true, 16, 5000000
			fl.TimerBudget, fl.CanonicalBlock, fl.Preempt, fl.BlockedOK = 1, true, 0, true
			fl.Stubs = map[string]interceptFn{repoModule + "/internal/transfer.readAtWithPool": stubReadAtDirect}
			js = append(js, fl)
			return js
		},
	})

	register(&PropCheck{
		ID:      "C18",
		PkgDirs: []string{"internal/transfer"},
		Level:   "other",
		Explanation: "Each write*/read* pair of the control protocol is executed symbolically (go/ssa) against an in-memory stream: all numeric fields are full-width solver variables, strings/bitmaps have case-split boundary lengths with symbolic bytes; " +
			"the decoded value, its type byte and the number of bytes consumed are asserted equal to what was written; sequences of 2 (quick) / 3 (thorough) records of symbolic kinds are decoded back and the stream must be exhausted. io.ReadFull, bytes, binary.BigEndian run from their own SSA; binary.Read/Write fixed-size fast paths are modelled.",
		Rule:        "assertion sites are the vAssert lines reached per record kind and boundary length",
		Assumptions: []string{"paths valid per validateRelPath (the writer refuses others)", "string/bitmap lengths from the boundary sets {0,1,2,255,256,1023,1024} / {0,1,2,255,256,65535} / {0,1,2,8,4096}; sequences use lengths 0..2", "short reads: every Read returns at most 1 or 2 bytes, or everything", "manifest JSON is an opaque codec (Marshal = arbitrary bytes, Unmarshal of the same bytes = same value)"},
		Bounds: func(tier string) string {
			if tier == "thorough" {
				return "sequences of <= 3 records (9^3 kind triples); field lengths up to 65535 (ids, error text), 1024 (paths), 4096 (bitmap); CreditBatch <= 3 entries"
			}
			return "sequences of <= 2 records (81 kind pairs); field lengths up to 65535 (ids, error text), 1024 (paths), 4096 (bitmap); CreditBatch <= 3 entries"
		},
		Jobs: func(tier string, prog *ssa.Program) []*Job {
			js := []*Job{
				hj("C18.FileBegin", "H_C18_FileBegin", "FileBegin round trip"),
				hj("C18.FileDone", "H_C18_FileDone", "FileDone round trip"),
				hj("C18.FileResumeInfo", "H_C18_FileResumeInfo", "FileResumeInfo round trip"),
				hj("C18.ResumeRequest", "H_C18_ResumeRequest", "ResumeRequest round trip"),
				hj("C18.small", "H_C18_small", "FileEnd, Credit, DataStreams, End, CreditBatch round trips"),
				hj("C18.header", "H_C18_header", "control header framing with opaque JSON"),
				hj("C18.seq2", "H_C18_seq2", "two records of symbolic kinds decode to the same sequence"),
				hj("C18.FileResumeInfo-large", "H_C18_FileResumeInfo_large", "FileResumeInfo round trip with bitmaps of 64 KiB, 64 KiB + 1 and 128 KiB + 1 (fields read in steps)"),
			}
			js[5].JSONLens = []int{0, 1, 2, 300, 65537}
			js[5].MaxSteps = 20000000
			js[0].MaxSymAlloc = 8
			if tier == "thorough" {
				js = append(js, hj("C18.seq3", "H_C18_seq3", "three records of symbolic kinds decode to the same sequence"))
			}
			for _, j := range js {
				j.Workers = 6
			}
			return js
		},
	})
}
