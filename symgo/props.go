package main

// Property registrations: which harnesses (obligations) decide which property, with bounds per tier.

import (
	"golang.org/x/tools/go/ssa"
)

func hj(id, entry, desc string) *Job {
	return &Job{ID: id, Pkg: "internal/transfer", Entry: entry, Desc: desc}
}

func init() {
	register(&PropCheck{
		ID:      "C19",
		PkgDirs: []string{"internal/transfer"},
		Level:   "other",
		Explanation: "Symbolic execution of chunkTotal, chunkSizeForIndex and CreateSidecar from their go/ssa form with fileSize (int64), chunkSize (uint32) and chunk index (uint32) as solver variables; " +
			"tiling, offset and count-agreement assertions are decided by z3 5.1.0 in an exact Int-with-explicit-wrap encoding of the machine arithmetic (no loop in the units, so the only bound is the property's own domain: size <= 10 TiB, count < 2^32). " +
			"unsat = holds for every value in the domain; sat = concrete (size, chunk) pair, replayed natively.",
		Rule:        "one obligation per harness; assertion sites are the vAssert lines of H_C19_*",
		Assumptions: []string{"fileSize in [0, 10 TiB], chunkSize in [1, 2^32-1], ceil(size/chunk) <= 2^32-1 (the property's domain)", "sidecar agreement: bitmap allocation case-split up to the modelled allocation bound; larger counts rely on the count expression being the same term (hash-consed identity is reported as folded)"},
		Trusted:     []string{"Int-with-wrap encoding of bvadd/bvmul/bvsdiv (DESIGN §2.4); the bit-vector encoding of the same query does not terminate on any installed solver (DESIGN §9)"},
		Bounds: func(tier string) string {
			return "all int64 sizes 0..10 TiB x all uint32 chunk sizes >= 1 x all uint32 indices below the count; no loop unrolling involved"
		},
		Jobs: func(tier string, prog *ssa.Program) []*Job {
			a := hj("C19.tiling", "H_C19_tiling", "chunkTotal/chunkSizeForIndex tile the file exactly")
			a.IntMode = true
			b := hj("C19.sidecar-count", "H_C19_sidecar_count", "CreateSidecar agrees with chunkTotal on the chunk count")
			b.IntMode = true
			b.MaxSymAlloc = 4
			if tier == "thorough" {
				b.MaxSymAlloc = 16
			}
			return []*Job{a, b}
		},
	})

	register(&PropCheck{
		ID:      "C18",
		PkgDirs: []string{"internal/transfer"},
		Level:   "other",
		Explanation: "Each write*/read* pair of the control protocol is executed symbolically (go/ssa) against an in-memory stream: all numeric fields are full-width solver variables, strings/bitmaps have case-split boundary lengths with symbolic bytes; " +
			"the decoded value, its type byte and the number of bytes consumed are asserted equal to what was written; sequences of 2 (quick) / 3 (thorough) records of symbolic kinds are decoded back and the stream must be exhausted. io.ReadFull, bytes, binary.BigEndian run from their own SSA; binary.Read/Write fixed-size fast paths are modelled.",
		Rule:        "assertion sites are the vAssert lines reached per record kind and boundary length",
		Assumptions: []string{"paths valid per validateRelPath (the writer refuses others)", "string/bitmap lengths from the boundary sets {0,1,2,255,256,1023,1024} / {0,1,2,255,256,65535} / {0,1,2,8,4096}; sequences use lengths 0..2", "short reads: every Read returns at most 1 or 2 bytes, or everything", "manifest JSON is an opaque codec (Marshal = arbitrary bytes, Unmarshal of the same bytes = same value)"},
		Bounds: func(tier string) string {
			if tier == "thorough" {
				return "sequences of <= 3 records (9^3 kind triples); field lengths up to 65535 (ids, error text), 1024 (paths), 4096 (bitmap); CreditBatch <= 3 entries"
			}
			return "sequences of <= 2 records (81 kind pairs); field lengths up to 65535 (ids, error text), 1024 (paths), 4096 (bitmap); CreditBatch <= 3 entries"
		},
		Jobs: func(tier string, prog *ssa.Program) []*Job {
			js := []*Job{
				hj("C18.FileBegin", "H_C18_FileBegin", "FileBegin round trip"),
				hj("C18.FileDone", "H_C18_FileDone", "FileDone round trip"),
				hj("C18.FileResumeInfo", "H_C18_FileResumeInfo", "FileResumeInfo round trip"),
				hj("C18.ResumeRequest", "H_C18_ResumeRequest", "ResumeRequest round trip"),
				hj("C18.small", "H_C18_small", "FileEnd, Credit, DataStreams, End, CreditBatch round trips"),
				hj("C18.header", "H_C18_header", "control header framing with opaque JSON"),
				hj("C18.seq2", "H_C18_seq2", "two records of symbolic kinds decode to the same sequence"),
			}
			js[5].JSONLens = []int{0, 1, 2, 300}
			if tier == "thorough" {
				js = append(js, hj("C18.seq3", "H_C18_seq3", "three records of symbolic kinds decode to the same sequence"))
			}
			for _, j := range js {
				j.Workers = 6
			}
			return js
		},
	})
}
