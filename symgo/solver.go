package main

// Long-lived SMT solver processes, incremental sessions, model parsing, cross-solver re-checks.

import (
	"bufio"
	"fmt"
	"io"
	"math"
	"os"
	"os/exec"
	"strconv"
	"strings"
	"sync"
	"sync/atomic"
	"time"
)

type SolverStats struct {
	Queries, Sat, Unsat, Unknown, Errors, Fallbacks int64
	Nanos                                int64
	CrossChecked, CrossAgree, CrossTimeout, CrossDisagree int64
	CrossNanos                           map[string]int64
}

var gStats SolverStats
var gStatsMu sync.Mutex

type Solver struct {
	kind       string
	intMode    bool
	timeoutMs  int
	cmd        *exec.Cmd
	in         io.WriteCloser
	out        *bufio.Reader
	ctx        *Ctx
	em         *Emitter
	transcript strings.Builder // level-0 text of this session (for cross-checks / dumps)
	buf        strings.Builder // level-0 text not yet sent
	needReset  bool
	oneShot    bool
	asserted   int
	lastErr    string
}

func solverArgs(kind string, timeoutMs int) (string, []string) {
	switch kind {
	case "z3-new":
		return "z3-new", []string{"-in", fmt.Sprintf("-t:%d", timeoutMs)}
	case "z3":
		return "z3", []string{"-in", fmt.Sprintf("-t:%d", timeoutMs)}
	case "cvc5":
		return "cvc5", []string{"--incremental", "--produce-models", "--lang=smt2", fmt.Sprintf("--tlimit-per=%d", timeoutMs)}
	}
	panic("unknown solver " + kind)
}

func NewSolver(ctx *Ctx, kind string, intMode bool, timeoutMs int) *Solver {
	s := &Solver{kind: kind, intMode: intMode, timeoutMs: timeoutMs, ctx: ctx}
	s.start()
	return s
}

func (s *Solver) start() {
	bin, args := solverArgs(s.kind, s.timeoutMs)
	s.cmd = exec.Command(bin, args...)
	in, err := s.cmd.StdinPipe()
	if err != nil {
		panic(err)
	}
	out, err := s.cmd.StdoutPipe()
	if err != nil {
		panic(err)
	}
	s.cmd.Stderr = nil
	if err := s.cmd.Start(); err != nil {
		fmt.Fprintf(os.Stderr, "cannot start solver %s: %v\n", bin, err)
		os.Exit(2)
	}
	s.in = in
	s.out = bufio.NewReaderSize(out, 1<<16)
	s.em = NewEmitter(s.ctx, s.intMode)
	s.transcript.Reset()
	s.send("(set-option :produce-models true)\n")
	if s.kind == "cvc5" {
		s.send("(set-logic ALL)\n")
	}
}

func (s *Solver) Close() {
	if s.cmd != nil {
		s.in.Close()
		s.cmd.Process.Kill()
		s.cmd.Wait()
		s.cmd = nil
	}
}

func (s *Solver) send(txt string) {
	if _, err := io.WriteString(s.in, txt); err != nil {
		s.lastErr = err.Error()
	}
}

// Reset starts a fresh session (new path).
func (s *Solver) Reset() {
	if s.kind == "cvc5" {
		s.Close()
		s.start()
		return
	}
	// lazy: nothing is sent until the first query of the new session
	s.needReset = true
	s.buf.Reset()
	s.em = NewEmitter(s.ctx, s.intMode)
	s.transcript.Reset()
	s.asserted = 0
	s.lastErr = ""
}

func (s *Solver) level0(txt string) {
	s.transcript.WriteString(txt)
	s.buf.WriteString(txt)
}

func (s *Solver) flush() {
	if s.needReset {
		s.send("(reset)\n(set-option :produce-models true)\n")
		s.needReset = false
	}
	if s.buf.Len() > 0 {
		s.send(s.buf.String())
		s.buf.Reset()
	}
}

// Assert adds t permanently to the session.
func (s *Solver) Assert(t *Term) {
	if t.IsTrue() {
		return
	}
	r := s.em.Ref(t)
	s.level0(s.em.Take())
	s.level0(fmt.Sprintf("(assert %s)\n", r))
	s.asserted++
}

func (s *Solver) readLine() (string, error) {
	line, err := s.out.ReadString('\n')
	return strings.TrimSpace(line), err
}

// readSexp reads one balanced s-expression (possibly spanning lines).
func (s *Solver) readSexp() (string, error) {
	var sb strings.Builder
	depth := 0
	started := false
	inBar := false
	for {
		b, err := s.out.ReadByte()
		if err != nil {
			return sb.String(), err
		}
		sb.WriteByte(b)
		if b == '|' {
			inBar = !inBar
		}
		if inBar {
			continue
		}
		if b == '(' {
			depth++
			started = true
		} else if b == ')' {
			depth--
			if started && depth == 0 {
				return sb.String(), nil
			}
		} else if !started && b == '\n' && strings.TrimSpace(sb.String()) != "" {
			return sb.String(), nil
		}
	}
}

// Check decides satisfiability of (session assertions ∧ extras). Result: "sat", "unsat", "unknown", "error".
// With wantModel and sat, a model for all declared vars is returned.
func (s *Solver) Check(wantModel bool, extras ...*Term) (string, Model) {
	if s.oneShot || s.kind == "cvc5" {
		return s.checkOnce(wantModel, s.oneShot, s.timeoutMs, extras...)
	}
	quick := 1500
	if quick > s.timeoutMs {
		quick = s.timeoutMs
	}
	r, m := s.checkOnce(wantModel, false, quick, extras...)
	if r == "unknown" && s.timeoutMs > quick {
		// the incremental core gave up: decide the same query non-incrementally (full preprocessing)
		atomic.AddInt64(&gStats.Fallbacks, 1)
		r, m = s.checkOnce(wantModel, true, s.timeoutMs, extras...)
		// the incremental session is gone; replay the transcript lazily before the next query
		s.needReset = true
		s.buf.Reset()
		s.buf.WriteString(s.transcript.String())
	}
	return r, m
}

func (s *Solver) checkOnce(wantModel bool, oneShot bool, toMs int, extras ...*Term) (string, Model) {
	t0 := time.Now()
	var refs []string
	for _, t := range extras {
		refs = append(refs, s.em.Ref(t))
	}
	s.level0(s.em.Take())
	var sb strings.Builder
	if oneShot {
		// non-incremental: z3's incremental core is much weaker (floating point, bvurem, wide ite chains)
		s.buf.Reset()
		s.needReset = true
		sb.WriteString("(reset)\n(set-option :produce-models true)\n")
		if s.kind != "cvc5" {
			fmt.Fprintf(&sb, "(set-option :timeout %d)\n", toMs)
		}
		sb.WriteString(s.transcript.String())
	} else {
		s.flush()
		if s.kind != "cvc5" {
			fmt.Fprintf(&sb, "(set-option :timeout %d)\n", toMs)
		}
		sb.WriteString("(push 1)\n")
	}
	for _, r := range refs {
		fmt.Fprintf(&sb, "(assert %s)\n", r)
	}
	sb.WriteString("(check-sat)\n")
	s.send(sb.String())
	res := "error"
	for {
		line, err := s.readLine()
		if err != nil {
			s.lastErr = "solver died: " + err.Error()
			s.Close()
			s.start() // session lost; caller treats "error" as inconclusive
			res = "error"
			atomic.AddInt64(&gStats.Queries, 1)
			atomic.AddInt64(&gStats.Errors, 1)
			return res, nil
		}
		if line == "" {
			continue
		}
		if line == "sat" || line == "unsat" || line == "unknown" || line == "timeout" {
			res = line
			if res == "timeout" {
				res = "unknown"
			}
			break
		}
		if strings.HasPrefix(line, "(error") {
			s.lastErr = line
			res = "error"
			// drain: continue reading until the check-sat answer arrives
			continue
		}
	}
	if s.lastErr != "" && res != "error" && strings.HasPrefix(s.lastErr, "(error") {
		// an error line anywhere in the session makes the answer untrustworthy
		res = "error"
	}
	var m Model
	if res == "sat" && wantModel {
		m = s.getModel()
	}
	if !oneShot {
		s.send("(pop 1)\n")
	}
	atomic.AddInt64(&gStats.Queries, 1)
	switch res {
	case "sat":
		atomic.AddInt64(&gStats.Sat, 1)
	case "unsat":
		atomic.AddInt64(&gStats.Unsat, 1)
	case "unknown":
		atomic.AddInt64(&gStats.Unknown, 1)
	default:
		atomic.AddInt64(&gStats.Errors, 1)
	}
	atomic.AddInt64(&gStats.Nanos, int64(time.Since(t0)))
	return res, m
}

func (s *Solver) getModel() Model {
	m := Model{}
	var names []string
	sorts := map[string]Sort{}
	for _, v := range s.ctx.Vars {
		if s.em.declV[v.Name] {
			names = append(names, smtName(v.Name))
			sorts[smtName(v.Name)] = v.S
		}
	}
	if len(names) == 0 {
		return m
	}
	// chunk to keep lines reasonable
	for i := 0; i < len(names); i += 200 {
		j := i + 200
		if j > len(names) {
			j = len(names)
		}
		s.send("(get-value (" + strings.Join(names[i:j], " ") + "))\n")
		txt, err := s.readSexp()
		if err != nil {
			s.lastErr = "get-value: " + err.Error()
			return m
		}
		parseValues(txt, m, sorts)
	}
	return m
}

// parseValues parses "((name value) (name value) ...)".
func parseValues(txt string, m Model, sorts map[string]Sort) {
	toks := tokenize(txt)
	// toks: ( ( name val... ) ( name val...) )
	pos := 0
	next := func() string {
		if pos < len(toks) {
			pos++
			return toks[pos-1]
		}
		return ""
	}
	if next() != "(" {
		return
	}
	for pos < len(toks) {
		t := next()
		if t == ")" {
			break
		}
		if t != "(" {
			continue
		}
		name := next()
		// read value expression tokens until matching close
		depth := 0
		var vt []string
		for pos < len(toks) {
			x := next()
			if x == "(" {
				depth++
			}
			if x == ")" {
				if depth == 0 {
					break
				}
				depth--
			}
			vt = append(vt, x)
		}
		key := name
		if strings.HasPrefix(name, "|") {
			key = strings.Trim(name, "|")
		}
		m[key] = parseValue(vt, sorts[name])
	}
}

func tokenize(s string) []string {
	var toks []string
	i := 0
	for i < len(s) {
		c := s[i]
		switch {
		case c == ' ' || c == '\n' || c == '\t' || c == '\r':
			i++
		case c == '(' || c == ')':
			toks = append(toks, string(c))
			i++
		case c == '|':
			j := i + 1
			for j < len(s) && s[j] != '|' {
				j++
			}
			toks = append(toks, s[i:j+1])
			i = j + 1
		default:
			j := i
			for j < len(s) && !strings.ContainsRune(" \n\t\r()", rune(s[j])) {
				j++
			}
			toks = append(toks, s[i:j])
			i = j
		}
	}
	return toks
}

func parseBVTok(t string) (uint64, bool) {
	if strings.HasPrefix(t, "#x") {
		v, err := strconv.ParseUint(t[2:], 16, 64)
		return v, err == nil
	}
	if strings.HasPrefix(t, "#b") {
		v, err := strconv.ParseUint(t[2:], 2, 64)
		return v, err == nil
	}
	return 0, false
}

func parseValue(vt []string, s Sort) uint64 {
	if len(vt) == 0 {
		return 0
	}
	switch s.K {
	case KBool:
		if vt[0] == "true" {
			return 1
		}
		return 0
	case KBV:
		if v, ok := parseBVTok(vt[0]); ok {
			return v
		}
		// Int mode: "5" or "( - 5 )"
		if vt[0] == "(" && len(vt) >= 3 && vt[1] == "-" {
			v, _ := strconv.ParseUint(vt[2], 10, 64)
			return -v
		}
		if vt[0] == "-" && len(vt) >= 2 {
			v, _ := strconv.ParseUint(vt[1], 10, 64)
			return -v
		}
		// (_ bv5 32)
		if vt[0] == "(" && len(vt) >= 3 && vt[1] == "_" && strings.HasPrefix(vt[2], "bv") {
			v, _ := strconv.ParseUint(vt[2][2:], 10, 64)
			return v
		}
		if vt[0] == "_" && len(vt) >= 2 && strings.HasPrefix(vt[1], "bv") {
			v, _ := strconv.ParseUint(vt[1][2:], 10, 64)
			return v
		}
		v, _ := strconv.ParseUint(vt[0], 10, 64)
		return v
	case KFP:
		// (fp #b0 #b... #x...) | (_ +zero 11 53) | (_ NaN 11 53) ...
		toks := vt
		if toks[0] == "(" {
			toks = toks[1:]
		}
		if toks[0] == "fp" && len(toks) >= 4 {
			sg, _ := parseBVTok(toks[1])
			ex, _ := parseBVTok(toks[2])
			mn, _ := parseBVTok(toks[3])
			return sg<<63 | ex<<52 | mn
		}
		if toks[0] == "_" && len(toks) >= 2 {
			switch toks[1] {
			case "+zero":
				return 0
			case "-zero":
				return 1 << 63
			case "+oo":
				return math.Float64bits(math.Inf(1))
			case "-oo":
				return math.Float64bits(math.Inf(-1))
			case "NaN":
				return math.Float64bits(math.NaN())
			}
		}
	}
	return 0
}

// Script returns a self-contained SMT-LIB script for (session ∧ extras), for other solvers.
func (s *Solver) Script(extras ...*Term) string {
	var refs []string
	for _, t := range extras {
		refs = append(refs, s.em.Ref(t))
	}
	s.level0(s.em.Take())
	var sb strings.Builder
	sb.WriteString("(set-logic ALL)\n")
	sb.WriteString(s.transcript.String())
	for _, r := range refs {
		fmt.Fprintf(&sb, "(assert %s)\n", r)
	}
	sb.WriteString("(check-sat)\n")
	return sb.String()
}

// runOneShot runs a script on a solver binary with a wall-clock cap. Returns sat/unsat/unknown/error.
func runOneShot(kind string, script string, capMs int) string {
	var cmd *exec.Cmd
	switch kind {
	case "z3-new", "z3":
		cmd = exec.Command(kind, "-in", fmt.Sprintf("-T:%d", (capMs+999)/1000))
	case "cvc5":
		cmd = exec.Command("cvc5", "--lang=smt2", fmt.Sprintf("--tlimit=%d", capMs))
	case "cvc5-int":
		cmd = exec.Command("cvc5", "--lang=smt2", "--solve-bv-as-int=sum", fmt.Sprintf("--tlimit=%d", capMs))
	}
	cmd.Stdin = strings.NewReader(script)
	done := make(chan struct{})
	var out []byte
	go func() {
		out, _ = cmd.CombinedOutput()
		close(done)
	}()
	select {
	case <-done:
	case <-time.After(time.Duration(capMs+2000) * time.Millisecond):
		if cmd.Process != nil {
			cmd.Process.Kill()
		}
		<-done
		return "unknown"
	}
	txt := string(out)
	if strings.Contains(txt, "(error") {
		return "error"
	}
	for _, l := range strings.Split(txt, "\n") {
		l = strings.TrimSpace(l)
		if l == "sat" || l == "unsat" {
			return l
		}
		if l == "unknown" || l == "timeout" {
			return "unknown"
		}
	}
	return "unknown"
}

// CrossCheck re-runs a deciding query on the secondary solvers. Returns "" when consistent,
// otherwise a description of the disagreement.
func crossCheck(script string, primary string, solvers []string, capMs int) string {
	gStatsMu.Lock()
	if gStats.CrossNanos == nil {
		gStats.CrossNanos = map[string]int64{}
	}
	gStatsMu.Unlock()
	dis := ""
	for _, k := range solvers {
		t0 := time.Now()
		r := runOneShot(k, script, capMs)
		gStatsMu.Lock()
		gStats.CrossNanos[k] += int64(time.Since(t0))
		gStatsMu.Unlock()
		atomic.AddInt64(&gStats.CrossChecked, 1)
		switch {
		case r == primary:
			atomic.AddInt64(&gStats.CrossAgree, 1)
		case r == "unknown" || r == "error":
			atomic.AddInt64(&gStats.CrossTimeout, 1)
		default:
			atomic.AddInt64(&gStats.CrossDisagree, 1)
			dis += fmt.Sprintf("%s says %s, primary says %s; ", k, r, primary)
		}
	}
	return dis
}
