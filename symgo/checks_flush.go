package main

// C05.c/e: Sidecar.Flush replaces the metadata atomically. The real Flush runs over the filesystem
// model; its effect log must be mkdir, create+write of the temp file, rename onto the final path and
// nothing else touching the final path; then for every crash cut of that log (including inside the
// temp file's block writes) the real LoadSidecar on the reconstructed disk yields the old version, the
// new version, or an error.

import (
	"fmt"
	"go/types"
	"strings"
)

func cloneNodes(ns []*FSNode) []*FSNode {
	out := make([]*FSNode, 0, len(ns))
	for _, n := range ns {
		c := *n
		c.data = append([]*Term{}, n.data...)
		out = append(out, &c)
	}
	return out
}

// applyEffects reconstructs the disk after the first k logged effects (concrete paths only).
func applyEffects(it *Interp, base []*FSNode, log []FSEffect) []*FSNode {
	nodes := cloneNodes(base)
	find := func(p string) *FSNode {
		for _, n := range nodes {
			if s, _ := n.path.concrete(); s == p && !n.removed {
				return n
			}
		}
		return nil
	}
	for _, e := range log {
		p, _ := e.Path.concrete()
		switch e.Kind {
		case "mkdir":
			if find(p) == nil {
				nodes = append(nodes, &FSNode{path: e.Path, dir: true})
			}
		case "create":
			n := find(p)
			if n == nil {
				n = &FSNode{path: e.Path}
				nodes = append(nodes, n)
			}
			n.data = nil
		case "write":
			n := find(p)
			if n == nil {
				continue
			}
			off := int(e.Off.V)
			for len(n.data) < off+len(e.Data) {
				n.data = append(n.data, it.ctx.BV(0, 8))
			}
			copy(n.data[off:], e.Data)
		case "truncate":
			if n := find(p); n != nil && e.Off.IsConst() {
				for len(n.data) < int(e.Off.V) {
					n.data = append(n.data, it.ctx.BV(0, 8))
				}
				n.data = n.data[:e.Off.V]
			}
		case "rename":
			p2, _ := e.Path2.concrete()
			if d := find(p2); d != nil {
				d.removed = true
			}
			if n := find(p); n != nil {
				n.path = e.Path2
			}
		case "remove", "removeall":
			if n := find(p); n != nil {
				n.removed = true
			}
		}
	}
	return nodes
}

func jobFlush(id string, maxChunks int, faults bool) *Job {
	j := &Job{ID: id, Pkg: tpkg, Desc: "Sidecar.Flush effect order, atomic replacement, every crash cut"}
	j.FSBlock = 8 // WriteFile is logged as 8-byte block writes so that a cut can fall inside it
	if faults {
		j.FSFaults = func(op string) bool { return op == "mkdirall" || op == "create" || op == "write" || op == "rename" }
	}
	j.ReplayTest = "TestVerifFlushReplay"
	j.Run = func(it *Interp) {
		c := it.ctx
		final := "/out/.thruflux_resumedata/id.sbxmap"
		scT := it.namedType(tpkg, "Sidecar")
		bmT := it.namedType(tpkg, "Bitmap")
		mk := func(tag string) (*Ptr, *Cell, []*Term) {
			total := it.Choice("chunks"+tag, maxChunks+1)
			nb := (total + 7) / 8
			bm := it.InBytes("bits"+tag, nb)
			if total%8 != 0 {
				it.Assume(c.Eq(c.Lshr(bm[nb-1], c.BV(uint64(total%8), 8)), c.BV(0, 8)))
			}
			bmp, _ := it.newStruct(bmT, map[string]Value{"bits": c.BV(uint64(total), 64), "data": it.newByteSlice(bm, "bits")})
			p, cell := it.newStruct(scT, map[string]Value{"Path": it.constString(final), "FileID": it.constString("id"), "FileSize": it.In("size"+tag, "i64", 64),
				"ChunkSize": it.In("cs"+tag, "u32", 32), "TotalChunks": c.BV(uint64(total), 32), "bitmap": bmp, "dirty": c.True})
			return p, cell, bm
		}
		flush := it.methodOf(types.NewPointer(scT), "Flush")
		load := findPkgFunc(it.prog, tpkg, "LoadSidecar")
		// an older version is on disk (written by the real Flush, no faults)
		haveOld := it.Choice("haveOld", 2) == 0
		var oldBytes []*Term
		if haveOld {
			oldP, _, _ := mk("Old")
			it.fsFaultsOff = true
			r := it.call(flush, []Value{oldP}, nil).(*IfaceV)
			it.fsFaultsOff = false
			if r.T != nil {
				it.inconclusive("setup flush failed")
			}
			if n := it.fsFind(it.constString(final)); n != nil {
				oldBytes = append([]*Term{}, n.data...)
			}
		}
		newP, newCell, _ := mk("New")
		base := cloneNodes(it.fs.nodes)
		logStart := len(it.fs.log)
		muCell := it.field(newCell, "mu")
		lockedAtWrite := true
		it.onFSEffect = func(it *Interp, e FSEffect) {
			if e.Kind == "write" && it.mutex[muCell] == 0 {
				lockedAtWrite = false
			}
		}
		res := it.call(flush, []Value{newP}, nil).(*IfaceV)
		it.onFSEffect = nil
		log := append([]FSEffect{}, it.fs.log[logStart:]...)
		var muts []FSEffect
		for _, e := range log {
			if e.Mut {
				muts = append(muts, e)
			}
		}
		it.Assert(c.Bool(lockedAtWrite), "the metadata is serialised and written with the sidecar mutex held")
		tmp := final + ".tmp"
		sawRename := false
		for i, e := range muts {
			p, _ := e.Path.concrete()
			switch e.Kind {
			case "mkdir":
				it.Assert(c.Bool(strings.HasPrefix("/out/.thruflux_resumedata", p) && !sawRename), "only the metadata directory (and its parents) is created, before anything else")
				_ = i
			case "create", "write":
				it.Assert(c.Bool(p == tmp), "new metadata is written to the temporary file only, never to the final path")
				it.Assert(c.Bool(!sawRename), "nothing is written after the rename")
			case "rename":
				p2, _ := e.Path2.concrete()
				it.Assert(c.Bool(p == tmp && p2 == final && i == len(muts)-1), "the update ends with one rename of the temporary file onto the final path")
				sawRename = true
			default:
				it.Assert(c.False, "Flush performs no other filesystem mutation ("+e.Kind+")")
			}
		}
		dirty := it.term(it.field(newCell, "dirty").v, "dirty")
		if res.T == nil {
			it.Cover("flush: ok")
			it.Assert(c.Bool(sawRename), "a successful flush has renamed the new version into place")
			it.Assert(c.Not(dirty), "a successful flush clears the dirty flag")
		} else {
			it.Cover("flush: failed")
			it.Assert(dirty, "a failed flush keeps the dirty flag so that it is retried")
		}
		// every crash cut of the effect log
		var newBytes []*Term
		if n := it.fsFind(it.constString(final)); n != nil && sawRename {
			newBytes = n.data
		}
		saveNodes := it.fs.nodes
		it.fsFaultsOff = true
		for k := 0; k <= len(muts); k++ {
			it.fs.nodes = applyEffects(it, base, muts[:k])
			var disk []*Term
			if n := it.fsFind(it.constString(final)); n != nil {
				disk = n.data
			}
			isOld := haveOld && sameTerms(disk, oldBytes)
			isNew := newBytes != nil && sameTerms(disk, newBytes)
			it.Assert(c.Bool(isOld || isNew || (disk == nil && !haveOld)), fmt.Sprintf("after a crash the final path holds the previous or the new version, never a torn one"))
			r := it.call(load, []Value{it.constString(final)}, nil).(TupleV)
			if r[1].(*IfaceV).T == nil {
				it.Cover("crash cut: metadata readable")
			}
		}
		it.fs.nodes = saveNodes
		it.fsFaultsOff = false
		_ = strings.Contains
	}
	return j
}

func sameTerms(a, b []*Term) bool {
	if len(a) != len(b) {
		return false
	}
	for i := range a {
		if a[i] != b[i] {
			return false
		}
	}
	return true
}
