package main

import (
	"fmt"
	"os"
	"runtime/pprof"
	"strings"

	"golang.org/x/tools/go/ssa"
	"sort"
)

func main() {
	if len(os.Args) < 2 {
		fmt.Fprintln(os.Stderr, "usage: symgo job <pkgdir> <entry> | check <id> <tier> | selftest")
		os.Exit(2)
	}
	if pf := os.Getenv("SYMGO_PROF"); pf != "" {
		f, _ := os.Create(pf)
		pprof.StartCPUProfile(f)
		defer pprof.StopCPUProfile()
	}
	switch os.Args[1] {
	case "job":
		ld, err := loadRepo([]string{os.Args[2]})
		if err != nil {
			fmt.Fprintln(os.Stderr, "load:", err)
			os.Exit(2)
		}
		fmt.Printf("loaded in %.1fs\n", ld.LoadSec)
		j := &Job{ID: os.Args[3], Pkg: os.Args[2], Entry: os.Args[3], Workers: 8, IntMode: os.Getenv("SYMGO_INT") != "", PanicOK: os.Getenv("SYMGO_PANICOK") != ""}
		j.OneShot = os.Getenv("SYMGO_ONESHOT") != ""
		if os.Getenv("SYMGO_THREADS") != "" {
			j.Threads = true
			j.TimersNeverFire = true
			fmt.Sscanf(os.Getenv("SYMGO_PREEMPT"), "%d", &j.Preempt)
			j.CanonicalBlock = os.Getenv("SYMGO_CANON") != ""
			j.PreemptAt = os.Getenv("SYMGO_PREEMPTAT")
			fmt.Sscanf(os.Getenv("SYMGO_TIMERS"), "%d", &j.TimerBudget)
			if os.Getenv("SYMGO_STUBREADPOOL") != "" {
				j.Stubs = map[string]interceptFn{repoModule + "/internal/transfer.readAtWithPool": stubReadAtDirect}
			}
			if e := os.Getenv("SYMGO_EAGER"); e != "" {
				j.EagerCalls = strings.Split(e, ",")
			}
		}
		if gc := os.Getenv("SYMGO_GOINLINECALLS"); gc != "" {
			j.GoInlineCalls = strings.Split(gc, ",")
			j.TimersNeverFire = true
			j.BlockedOK = true
		}
		if os.Getenv("SYMGO_GOINLINE") != "" {
			j.GoInline = func(string) bool { return true }
		}
		if os.Getenv("SYMGO_ALLOC") != "" {
			j.AllocLimit = 64 << 20
		}
		if mp := os.Getenv("SYMGO_MAXPATHS"); mp != "" {
			fmt.Sscanf(mp, "%d", &j.MaxPaths)
		}
		res := Explore(ld.Prog, j)
		printResult(j.ID, res)
	case "closures":
		ld, err := loadRepo([]string{os.Args[2]})
		if err != nil {
			fmt.Fprintln(os.Stderr, "load:", err)
			os.Exit(2)
		}
		parent := findPkgFunc(ld.Prog, os.Args[2], os.Args[3])
		var fns []*ssa.Function
		allNested(parent, &fns)
		names := map[*ssa.Function][]string{}
		for _, f := range fns {
			for _, b := range f.Blocks {
				for _, ins := range b.Instrs {
					if mc, ok := ins.(*ssa.MakeClosure); ok {
						names[mc.Fn.(*ssa.Function)] = closureNames(mc)
					}
				}
			}
		}
		for _, f := range fns {
			pos := ld.Prog.Fset.Position(f.Pos())
			fmt.Printf("%s line %d names=%v params=%d free=%v\n", f.Name(), pos.Line, names[f], len(f.Params), FreeVarNames(f))
		}
	case "listjobs":
		p := registry[os.Args[2]]
		ld, err := loadRepo(p.PkgDirs)
		if err != nil {
			fmt.Fprintln(os.Stderr, "load:", err)
			os.Exit(2)
		}
		tier := "quick"
		if len(os.Args) > 3 {
			tier = os.Args[3]
		}
		for _, j := range p.Jobs(tier, ld.Prog) {
			fmt.Println(j.ID)
		}
	case "checkjob":
		p := registry[os.Args[2]]
		ld, err := loadRepo(p.PkgDirs)
		if err != nil {
			fmt.Fprintln(os.Stderr, "load:", err)
			os.Exit(2)
		}
		tier := "quick"
		if len(os.Args) > 4 {
			tier = os.Args[4]
		}
		for _, j := range p.Jobs(tier, ld.Prog) {
			if j.ID == os.Args[3] {
				if mp := os.Getenv("SYMGO_MAXPATHS"); mp != "" {
					fmt.Sscanf(mp, "%d", &j.MaxPaths)
				}
				res := Explore(ld.Prog, j)
				printResult(j.ID, res)
			}
		}
	default:
		os.Exit(mainCheck(os.Args[1:]))
	}
}

func printResult(id string, r *JobResult) {
	fmt.Printf("job %s: paths=%d outcomes=%v queries=%d discharged=%d trivial=%d wall=%.1fs\n", id, r.Paths, r.Outcomes, r.Queries, r.Discharged, r.Trivial, r.Wall)
	keys := func(m map[string]int) []string {
		var k []string
		for s := range m {
			k = append(k, s)
		}
		sort.Strings(k)
		return k
	}
	for _, k := range keys(r.Inconclusive) {
		fmt.Printf("  inconclusive x%d: %s\n", r.Inconclusive[k], k)
	}
	for _, k := range keys(r.Truncated) {
		fmt.Printf("  truncated x%d: %s\n", r.Truncated[k], k)
	}
	for _, k := range keys(r.UnknownAsserts) {
		fmt.Printf("  unknown-assert x%d: %s\n", r.UnknownAsserts[k], k)
	}
	for _, k := range keys(r.Notes) {
		fmt.Printf("  note x%d: %s\n", r.Notes[k], k)
	}
	cnt := map[string]int{}
	for _, v := range r.Violations {
		cnt[v.Kind+"|"+v.Msg]++
	}
	for k, n := range cnt {
		fmt.Printf("  violations x%d: %s\n", n, k)
	}
	shown := map[string]int{}
	for i, v := range r.Violations {
		shown[v.Kind+"|"+v.Msg]++
		if shown[v.Kind+"|"+v.Msg] > 2 {
			continue
		}
		if len(shown) > 12 {
			fmt.Printf("  … %d more\n", len(r.Violations)-i)
			break
		}
		fmt.Printf("  VIOL[%s] %s @%s inputs=%s\n", v.Kind, v.Msg, v.Site, v.Extra["inputs"])
	}
	for c := range r.Covers {
		fmt.Printf("  cover: %s\n", c)
	}
}
